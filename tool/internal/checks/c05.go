package checks

import (
	"fmt"
	"go/ast"
	"go/constant"
	"go/token"
	"go/types"
	"regexp"
	"sort"
	"strings"

	"fv/internal/core"

	"golang.org/x/tools/go/packages"
	"golang.org/x/tools/go/ssa"
)

// C05 — linter, reference tables and simulator agree on types, scopes and signatures.
func init() {
	register(&Check{ID: "C05", NeedSSA: true, Run: runC05})
}

var scopeNames = []string{"RECV", "HASH", "HIT", "MISS", "PASS", "FETCH", "ERROR", "DELIVER", "LOG"}

// linter type constant name -> simulator value kind
var lintToSimType = map[string]string{
	"IntegerType": "INTEGER", "FloatType": "FLOAT", "StringType": "STRING", "BoolType": "BOOL", "RTimeType": "RTIME", "TimeType": "TIME",
	"IPType": "IP", "BackendType": "BACKEND", "AclType": "ACL", "ReqBackendType": "BACKEND", "IDType": "IDENT", "TableType": "IDENT",
}

type lintAccessor struct {
	name        string
	get, set    string
	unset       bool
	scopes      int64
	pos         token.Pos
	hasWildcard bool
}

type lintFunction struct {
	name   string
	args   [][]string
	ret    string
	scopes int64
	pos    token.Pos
}

func runC05(c *core.Ctx) {
	c.Explanation = "Cross-table agreement, decided by extracting both sides' compiled tables from typed syntax and SSA and comparing them cell by cell (nothing is executed): (ref.stmt) the scope sets in which the linter admits restart / error / synthetic / esi equal the scope sets in which the simulator executes them; (ref.return) every return(action) the linter admits in a scope has a successor in the simulator's transition function (the table extracted for C06); (ref.func) every built-in the linter knows exists in the simulator's function table with at least the linter's scopes, every arity the linter admits is accepted by the simulator's validator and every argument kind agrees with the simulator's argument table (STRING parameters accept anything the simulator stringifies); (ref.var) for every predefined variable × {get,set,unset} × scope the linter admits, the simulator's variable object for that scope has a case, pattern or prefix for the name somewhere along its Get/Set/Unset chain — absence means the access can only end in the `undefined variable` error; (ref.vartype) where the simulator's case returns a value of statically known kind it is the kind the linter promises; (ref.settype) the storage a Set arm hands to doAssign has the kind the linter declares settable for that variable; (ref.op) for every assignment operator × left kind × right kind × {literal, variable} the linter's type switch admits, a partial evaluation of the simulator's implementation with the kinds bound finds a path that returns no error. Necessary for: what lints clean does not fail in the simulator as undefined, out of scope, mistyped or with a wrong arity. (ref.multiscope) the accessors of the linter context (Get, Set, Unset, GetFunction) admit an access only when `Scopes & current == current` (every annotated scope allows it), not on mere overlap. (ref.litpred) all lint*Operator call sites decide literal / variable with the same predicate."
	c.NotCovered = []string{"that the linter's tables equal Fastly's documentation (the bundled YAML is the reference; only the generated Go tables are compared with each other)", "values the simulator returns for a variable", "run-time failures that depend on operand values (division by zero, parse errors)"}
	lp := c.Prog.Pkg("linter/context")
	if lp == nil {
		c.MissingAnchor("ref.var", "package linter/context")
		return
	}
	lintScope := map[string]int64{}
	for _, n := range scopeNames {
		if k, ok := lp.Types.Scope().Lookup(n).(*types.Const); ok {
			v, _ := constant.Int64Val(k.Val())
			lintScope[n] = v
		}
	}
	if len(lintScope) != 9 {
		c.MissingAnchor("ref.var", "linter/context scope constants")
		return
	}
	sm := extractStateMachine(c.Prog)
	checkStatementScopes(c, lintScope)
	checkReturnActions(c, lintScope, sm)
	checkFunctionTables(c, lp, lintScope)
	checkVariableTables(c, lp, lintScope)
	checkOperatorCells(c)
	checkMultiScope(c)
	checkLiteralPredicate(c)
	checkStatementScopeGuards(c)
}

// ---------- helpers over composite literals

func compositeOf(e ast.Expr) *ast.CompositeLit {
	switch t := e.(type) {
	case *ast.CompositeLit:
		return t
	case *ast.UnaryExpr:
		return compositeOf(t.X)
	case *ast.ParenExpr:
		return compositeOf(t.X)
	}
	return nil
}

func fieldsOf(cl *ast.CompositeLit) map[string]ast.Expr {
	out := map[string]ast.Expr{}
	for _, e := range cl.Elts {
		if kv, ok := e.(*ast.KeyValueExpr); ok {
			if id, ok := kv.Key.(*ast.Ident); ok {
				out[id.Name] = kv.Value
			}
		}
	}
	return out
}

func selName(e ast.Expr) string {
	switch t := e.(type) {
	case *ast.SelectorExpr:
		return t.Sel.Name
	case *ast.Ident:
		return t.Name
	}
	return ""
}

func constIntOf(pk *packages.Package, e ast.Expr) (int64, bool) {
	if tv, ok := pk.TypesInfo.Types[e]; ok && tv.Value != nil && tv.Value.Kind() == constant.Int {
		return constant.Int64Val(tv.Value)
	}
	return 0, false
}

func funcReturnLit(pk *packages.Package, name string) *ast.CompositeLit {
	for _, fd := range core.FuncDecls(pk) {
		if fd.Name.Name != name || fd.Recv != nil || fd.Body == nil {
			continue
		}
		for _, st := range fd.Body.List {
			if r, ok := st.(*ast.ReturnStmt); ok && len(r.Results) == 1 {
				return compositeOf(r.Results[0])
			}
		}
	}
	return nil
}

// ---------- ref.stmt

func maskScopes(mask int64, table map[string]int64) []string {
	var out []string
	for _, n := range scopeNames {
		if mask&table[n] != 0 {
			out = append(out, n)
		}
	}
	return out
}

func checkStatementScopes(c *core.Ctx, lintScope map[string]int64) {
	prog := c.Prog
	ip := prog.Pkg("interpreter/context")
	simScope := map[string]int64{}
	if ip != nil {
		for _, n := range scopeNames {
			if k, ok := ip.Types.Scope().Lookup(strings.Title(strings.ToLower(n)) + "Scope").(*types.Const); ok {
				v, _ := constant.Int64Val(k.Val())
				simScope[n] = v
			}
		}
	}
	if len(simScope) != 9 {
		c.MissingAnchor("ref.stmt", "interpreter/context scope constants")
		return
	}
	all := []string{}
	all = append(all, scopeNames...)
	// linter: `ctx.Mode() & MASK == 0` guarding l.Error in lint<Stmt>Statement; no such test = every scope
	lintSet := func(fnName string) ([]string, token.Pos) {
		fn := prog.SSAFunc("linter", "Linter."+fnName)
		if fn == nil {
			c.MissingAnchor("ref.stmt", "linter.(*Linter)."+fnName)
			return nil, token.NoPos
		}
		c.Func(core.FnName(fn))
		for _, b := range fn.Blocks {
			for _, in := range b.Instrs {
				bo, ok := in.(*ssa.BinOp)
				if !ok || bo.Op != token.AND {
					continue
				}
				k, isK := core.ConstIntValue(bo.Y)
				if !isK {
					continue
				}
				fromMode := false
				for x := range core.BackSlice(bo.X) {
					if cl, ok := x.(*ssa.Call); ok {
						if cal := cl.Common().StaticCallee(); cal != nil && cal.Name() == "Mode" {
							fromMode = true
						}
					}
				}
				if fromMode {
					return maskScopes(k, lintScope), fn.Pos()
				}
			}
		}
		return all, fn.Pos()
	}
	// simulator: Scope.Is(consts...) dominating-by-negation the statement's execution
	simSetIn := func(fn *ssa.Function, within func(b *ssa.BasicBlock) bool) []string {
		for _, b := range fn.Blocks {
			if !within(b) {
				continue
			}
			for _, in := range b.Instrs {
				if cal := core.StaticCallee(in); cal != nil && cal.Name() == "Is" && cal.Signature.Recv() != nil && core.NamedTypeName(cal.Signature.Recv().Type()) == "Scope" {
					var mask int64
					for _, v := range sliceLitConsts(in.(ssa.CallInstruction).Common().Args[1]) {
						mask |= v
					}
					// a restriction only when the failing edge of the test reports an error
					restricts := false
					if cv, ok := in.(ssa.Value); ok && cv.Referrers() != nil {
						for _, r := range *cv.Referrers() {
							if iff, ok := r.(*ssa.If); ok && returnsErrorSoon(iff.Block().Succs[1]) {
								restricts = true
							}
						}
					}
					if !restricts {
						continue
					}
					return maskScopes(mask, simScope)
				}
			}
		}
		return all
	}
	pbs := prog.SSAFunc("interpreter", "Interpreter.ProcessBlockStatement")
	esi := prog.SSAFunc("interpreter", "Interpreter.ProcessEsiStatement")
	if pbs == nil || esi == nil {
		c.MissingAnchor("ref.stmt", "Interpreter.ProcessBlockStatement / ProcessEsiStatement")
		return
	}
	armOf := func(node string) func(b *ssa.BasicBlock) bool {
		var arm *ssa.BasicBlock
		for _, b := range pbs.Blocks {
			for _, in := range b.Instrs {
				if ta, ok := in.(*ssa.TypeAssert); ok && ta.CommaOk && core.NamedTypeName(ta.AssertedType) == node {
					if _, ok := b.Instrs[len(b.Instrs)-1].(*ssa.If); ok {
						arm = b.Succs[0]
					}
				}
			}
		}
		return func(b *ssa.BasicBlock) bool { return arm != nil && arm.Dominates(b) }
	}
	type stmt struct{ name, lintFn, node string }
	for _, s := range []stmt{{"restart", "lintRestartStatement", "RestartStatement"}, {"error", "lintErrorStatement", "ErrorStatement"}, {"synthetic", "lintSyntheticStatement", "SyntheticStatement"}, {"synthetic.base64", "lintSyntheticBase64Statement", "SyntheticBase64Statement"}, {"esi", "lintEsiStatement", "EsiStatement"}} {
		ls, pos := lintSet(s.lintFn)
		if ls == nil {
			continue
		}
		var ss []string
		if s.name == "esi" {
			ss = simSetIn(esi, func(*ssa.BasicBlock) bool { return true })
		} else {
			ss = simSetIn(pbs, armOf(s.node))
		}
		key := "stmt|" + s.name
		if strings.Join(ls, ",") == strings.Join(ss, ",") {
			c.Discharge("ref.stmt", key, pos, "linter and simulator admit it in {"+strings.Join(ls, ",")+"}")
			continue
		}
		var only []string
		in := map[string]bool{}
		for _, x := range ss {
			in[x] = true
		}
		for _, x := range ls {
			if !in[x] {
				only = append(only, x)
			}
		}
		if len(only) > 0 {
			c.Report("ref.stmt", key, pos, fmt.Sprintf("the linter accepts the `%s` statement in {%s} but the simulator rejects it there (simulator: {%s}): lint-clean VCL fails at run time", s.name, strings.Join(only, ","), strings.Join(ss, ",")))
		} else {
			c.Report("ref.stmt", key, pos, fmt.Sprintf("the linter rejects the `%s` statement in scopes where the simulator executes it (linter {%s}, simulator {%s}): the two do not describe the same language", s.name, strings.Join(ls, ","), strings.Join(ss, ",")))
		}
	}
	c.Floor("ref.stmt", 5)
}

// ---------- ref.return

// extractStateMachine: scope -> action -> successor, the table C06 compares with the Fastly lifecycle.
func extractStateMachine(prog *core.Program) map[string]map[string]string {
	out := map[string]map[string]string{}
	ip := prog.Pkg("interpreter")
	psub := prog.SSAFunc("interpreter", "Interpreter.ProcessSubroutine")
	if ip == nil || psub == nil {
		return out
	}
	states := map[string]string{}
	for _, n := range ip.Types.Scope().Names() {
		if k, ok := ip.Types.Scope().Lookup(n).(*types.Const); ok && core.NamedTypeName(k.Type()) == "State" {
			states[n] = constant.StringVal(k.Val())
		}
	}
	isSucc := func(in ssa.Instruction) string {
		cal := core.StaticCallee(in)
		if cal == nil || cal.Signature.Recv() == nil || core.NamedTypeName(cal.Signature.Recv().Type()) != "Interpreter" || !successorFuncs[cal.Name()] {
			return ""
		}
		return cal.Name()
	}
	for scope := range stateMachineSpec {
		fn := prog.SSAFunc("interpreter", "Interpreter."+scope)
		if fn == nil {
			continue
		}
		for _, b := range fn.Blocks {
			for _, in := range b.Instrs {
				call, ok := in.(*ssa.Call)
				if !ok || call.Common().StaticCallee() != psub || call.Referrers() == nil {
					continue
				}
				for _, r := range *call.Referrers() {
					if ex, ok := r.(*ssa.Extract); ok && ex.Index == 0 {
						out[scope] = map[string]string{}
						for n, v := range states {
							out[scope][v] = walkState(b, ex, v, isSucc)
							_ = n
						}
					}
				}
			}
		}
	}
	return out
}

func checkReturnActions(c *core.Ctx, lintScope map[string]int64, sm map[string]map[string]string) {
	prog := c.Prog
	fn := prog.SSAFunc("linter", "Linter.lintReturnStatement")
	if fn == nil {
		c.MissingAnchor("ref.return", "linter.(*Linter).lintReturnStatement")
		return
	}
	c.Func(core.FnName(fn))
	// switch ctx.Mode() { case RECV: expects = append(expects, consts...) }
	n := 0
	for _, b := range fn.Blocks {
		iff, ok := b.Instrs[len(b.Instrs)-1].(*ssa.If)
		if !ok {
			continue
		}
		bo, eq, ok := core.EqCond(iff.Cond)
		if !ok {
			continue
		}
		k, isK := core.ConstIntValue(bo.Y)
		if !isK {
			continue
		}
		fromMode := false
		if cl, ok := bo.X.(*ssa.Call); ok {
			if cal := cl.Common().StaticCallee(); cal != nil && cal.Name() == "Mode" {
				fromMode = true
			}
		}
		if !fromMode {
			continue
		}
		scope := ""
		for _, s := range scopeNames {
			if lintScope[s] == k {
				scope = s
			}
		}
		if scope == "" {
			continue
		}
		// string constants stored into the variadic slice appended in the arm
		var acts []string
		arm := b.Succs[eq]
		for _, bb := range fn.Blocks {
			if !arm.Dominates(bb) {
				continue
			}
			for _, in := range bb.Instrs {
				if st, ok := in.(*ssa.Store); ok {
					if kc, ok := st.Val.(*ssa.Const); ok && kc.Value != nil && kc.Value.Kind() == constant.String {
						if _, isIA := st.Addr.(*ssa.IndexAddr); isIA {
							acts = append(acts, constant.StringVal(kc.Value))
						}
					}
				}
			}
		}
		sort.Strings(acts)
		simFn := "Process" + strings.Title(strings.ToLower(scope))
		for _, a := range acts {
			n++
			key := fmt.Sprintf("return|%s|%s", scope, a)
			switch {
			case scope == "HASH" || scope == "LOG":
				c.Discharge("ref.return", key, iff.Pos(), "the simulator does not dispatch on the action in "+scope)
			case sm[simFn] == nil:
				c.Report("ref.return", key, iff.Pos(), "no transition function extracted for "+simFn)
			case sm[simFn][a] != "":
				c.Discharge("ref.return", key, iff.Pos(), "simulator continues with "+sm[simFn][a])
			default:
				c.Report("ref.return", key, iff.Pos(), fmt.Sprintf("the linter accepts return(%s) in vcl_%s but the simulator's %s has no transition for it: the request ends in `returned unexpected state`", a, strings.ToLower(scope), simFn))
			}
		}
	}
	c.Floor("ref.return", 25)
	_ = n
}

// ---------- ref.func

func flattenFunctions(pk *packages.Package, cl *ast.CompositeLit, prefix string, out *[]lintFunction) {
	for _, e := range cl.Elts {
		kv, ok := e.(*ast.KeyValueExpr)
		if !ok {
			continue
		}
		k, ok := core.ConstString(pk.TypesInfo, kv.Key)
		if !ok {
			continue
		}
		name := k
		if prefix != "" {
			name = prefix + "." + k
		}
		spec := compositeOf(kv.Value)
		if spec == nil {
			continue
		}
		f := fieldsOf(spec)
		if v := f["Value"]; v != nil {
			if bf := compositeOf(v); bf != nil {
				ff := fieldsOf(bf)
				lf := lintFunction{name: name, pos: kv.Pos(), ret: selName(ff["Return"])}
				if s, ok := constIntOf(pk, ff["Scopes"]); ok {
					lf.scopes = s
				}
				if args := compositeOf(ff["Arguments"]); args != nil {
					for _, sig := range args.Elts {
						var ts []string
						if sl := compositeOf(sig); sl != nil {
							for _, t := range sl.Elts {
								ts = append(ts, selName(t))
							}
						}
						lf.args = append(lf.args, ts)
					}
				}
				*out = append(*out, lf)
			}
		}
		if items := f["Items"]; items != nil {
			if icl := compositeOf(items); icl != nil {
				flattenFunctions(pk, icl, name, out)
			}
		}
	}
}

func checkFunctionTables(c *core.Ctx, lp *packages.Package, lintScope map[string]int64) {
	prog := c.Prog
	lit := funcReturnLit(lp, "builtinFunctions")
	if lit == nil {
		c.MissingAnchor("ref.func", "linter/context.builtinFunctions")
		return
	}
	var lfs []lintFunction
	flattenFunctions(lp, lit, "", &lfs)
	// simulator table
	fp := prog.Pkg("interpreter/function")
	ip := prog.Pkg("interpreter/context")
	if fp == nil || ip == nil {
		c.MissingAnchor("ref.func", "package interpreter/function")
		return
	}
	simScope := map[string]int64{}
	for _, n := range scopeNames {
		if k, ok := ip.Types.Scope().Lookup(strings.Title(strings.ToLower(n)) + "Scope").(*types.Const); ok {
			v, _ := constant.Int64Val(k.Val())
			simScope[n] = v
		}
	}
	type simFunc struct {
		scopes int64
		goName string
	}
	sim := map[string]simFunc{}
	for _, f := range fp.Syntax {
		for _, d := range f.Decls {
			gd, ok := d.(*ast.GenDecl)
			if !ok || gd.Tok != token.VAR {
				continue
			}
			for _, sp := range gd.Specs {
				vs := sp.(*ast.ValueSpec)
				if len(vs.Names) != 1 || vs.Names[0].Name != "builtinFunctions" || len(vs.Values) != 1 {
					continue
				}
				cl := compositeOf(vs.Values[0])
				if cl == nil {
					continue
				}
				for _, e := range cl.Elts {
					kv, ok := e.(*ast.KeyValueExpr)
					if !ok {
						continue
					}
					name, ok := core.ConstString(fp.TypesInfo, kv.Key)
					if !ok {
						continue
					}
					fcl := compositeOf(kv.Value)
					if fcl == nil {
						continue
					}
					ff := fieldsOf(fcl)
					sf := simFunc{}
					if s, ok := constIntOf(fp, ff["Scope"]); ok {
						sf.scopes = s
					}
					if call := ff["Call"]; call != nil {
						ast.Inspect(call, func(n ast.Node) bool {
							ce, ok := n.(*ast.CallExpr)
							if !ok {
								return true
							}
							if fn := core.Callee(fp.TypesInfo, ce); fn != nil && fn.Pkg() != nil && strings.HasSuffix(fn.Pkg().Path(), "interpreter/function/builtin") {
								sf.goName = fn.Name()
							}
							return true
						})
					}
					sim[name] = sf
				}
			}
		}
	}
	if len(sim) < 190 || len(lfs) < 190 {
		c.MissingAnchor("ref.func", fmt.Sprintf("function tables (linter %d, simulator %d entries)", len(lfs), len(sim)))
		return
	}
	bt := newBuiltinArgTable(prog)
	sort.Slice(lfs, func(i, j int) bool { return lfs[i].name < lfs[j].name })
	for _, lf := range lfs {
		sf, ok := sim[lf.name]
		if !ok {
			c.Report("ref.func", "func|"+lf.name+"|exists", lf.pos, fmt.Sprintf("the linter knows built-in %s but the simulator's function table has no entry for it: a lint-clean call fails with `Function %s is not defined`", lf.name, lf.name))
			continue
		}
		// scopes
		var missing []string
		for _, s := range scopeNames {
			if lf.scopes&lintScope[s] != 0 && sf.scopes&simScope[s] == 0 {
				missing = append(missing, s)
			}
		}
		if len(missing) == 0 {
			c.Discharge("ref.func", "func|"+lf.name+"|scopes", lf.pos, "simulator scopes cover the linter's")
		} else {
			c.Report("ref.func", "func|"+lf.name+"|scopes", lf.pos, fmt.Sprintf("the linter allows %s in {%s} where the simulator's table forbids it: a lint-clean call fails with `could not call on scope`", lf.name, strings.Join(missing, ",")))
		}
		// arities and kinds
		full := "interpreter/function/builtin." + sf.goName
		val := bt.validate[full]
		if sf.goName == "" || val == nil {
			c.Report("ref.func", "func|"+lf.name+"|validator", lf.pos, "no validator found for the simulator's implementation of "+lf.name)
			continue
		}
		for i, sig := range lf.args {
			key := fmt.Sprintf("func|%s|sig%d", lf.name, i+1)
			if !bt.acceptsArity(val, int64(len(sig))) {
				c.Report("ref.func", key+"|arity", lf.pos, fmt.Sprintf("the linter admits %s with %d argument(s) but the simulator's validator rejects that count", lf.name, len(sig)))
				continue
			}
			tbl := bt.types[full]
			bad := ""
			if bt.generic[full] {
				for j, lt := range sig {
					if j >= len(tbl) {
						break
					}
					want := lintToSimType[lt]
					got := strings.ToUpper(tbl[j])
					if got == "BOOLEAN" {
						got = "BOOL"
					}
					if want == "" || got == "" || want == got || got == "STRING" {
						continue
					}
					bad = fmt.Sprintf("argument %d is %s for the linter and %s for the simulator", j+1, want, got)
				}
			}
			if bad == "" {
				c.Discharge("ref.func", key, lf.pos, fmt.Sprintf("%d argument(s) accepted", len(sig)))
			} else {
				c.Report("ref.func", key+"|kind", lf.pos, fmt.Sprintf("%s: %s; a lint-clean call fails the simulator's argument validation", lf.name, bad))
			}
		}
	}
	c.Floor("ref.func", 400)
}

// ---------- ref.var

func flattenVariables(pk *packages.Package, cl *ast.CompositeLit, prefix string, out *[]lintAccessor) {
	for _, e := range cl.Elts {
		kv, ok := e.(*ast.KeyValueExpr)
		if !ok {
			continue
		}
		k, ok := core.ConstString(pk.TypesInfo, kv.Key)
		if !ok {
			continue
		}
		name := k
		if prefix != "" {
			name = prefix + "." + k
		}
		obj := compositeOf(kv.Value)
		if obj == nil {
			continue
		}
		f := fieldsOf(obj)
		if v := f["Value"]; v != nil {
			if acc := compositeOf(v); acc != nil {
				af := fieldsOf(acc)
				la := lintAccessor{name: name, pos: kv.Pos(), get: selName(af["Get"]), set: selName(af["Set"]), unset: selName(af["Unset"]) == "true", hasWildcard: strings.Contains(name, "%any%")}
				if s, ok := constIntOf(pk, af["Scopes"]); ok {
					la.scopes = s
				}
				*out = append(*out, la)
			}
		}
		if items := f["Items"]; items != nil {
			if icl := compositeOf(items); icl != nil {
				flattenVariables(pk, icl, name, out)
			}
		}
	}
}

// nameCases: what a Get/Set/Unset chain can recognise.
type nameCases struct {
	exact    map[string]bool
	regexps  []*regexp.Regexp
	prefixes []string
	kinds    map[string]map[string]bool // name -> kinds of values returned under its case (Get only)
	setKinds map[string]map[string]bool // name -> kinds of the storage handed to doAssign under its case (Set only)
}

func (prog5 *c05vars) cases(fn *ssa.Function) *nameCases {
	if nc := prog5.memo[fn]; nc != nil {
		return nc
	}
	nc := &nameCases{exact: map[string]bool{}, kinds: map[string]map[string]bool{}, setKinds: map[string]map[string]bool{}}
	prog5.memo[fn] = nc
	// the parameter carrying the variable name
	var nameP *ssa.Parameter
	for _, p := range fn.Params {
		if b, ok := p.Type().Underlying().(*types.Basic); ok && b.Kind() == types.String && (p.Name() == "name" || nameP == nil) {
			nameP = p
		}
	}
	if nameP == nil {
		return nc
	}
	var isName func(v ssa.Value) bool
	isName = func(v ssa.Value) bool {
		if v == ssa.Value(nameP) {
			return true
		}
		// case-folded / trimmed spellings of the name
		if cl, ok := v.(*ssa.Call); ok {
			if cal := cl.Common().StaticCallee(); cal != nil && cal.Pkg != nil && cal.Pkg.Pkg.Path() == "strings" {
				switch cal.Name() {
				case "ToLower", "ToUpper", "TrimSpace":
					return isName(cl.Common().Args[0])
				}
			}
		}
		return false
	}
	for _, b := range fn.Blocks {
		for _, in := range b.Instrs {
			switch t := in.(type) {
			case *ssa.BinOp:
				if t.Op != token.EQL && t.Op != token.NEQ {
					continue
				}
				for _, pr := range [][2]ssa.Value{{t.X, t.Y}, {t.Y, t.X}} {
					if k, ok := pr[1].(*ssa.Const); ok && isName(pr[0]) && k.Value != nil && k.Value.Kind() == constant.String {
						name := constant.StringVal(k.Value)
						nc.exact[name] = true
						// kinds returned in the arm
						if iff, ok := b.Instrs[len(b.Instrs)-1].(*ssa.If); ok && iff.Cond == ssa.Value(t) {
							_, eq, _ := core.EqCond(t)
							prog5.armKinds(fn, b.Succs[eq], name, nc)
						}
					}
				}
			case *ssa.Call:
				cal := t.Common().StaticCallee()
				args := t.Common().Args
				if cal == nil {
					continue
				}
				passes := -1
				for i, a := range args {
					if isName(a) {
						passes = i
					}
				}
				if passes < 0 {
					continue
				}
				switch {
				case cal.Pkg != nil && cal.Pkg.Pkg.Path() == "regexp":
					for x := range core.BackSlice(args[0]) {
						if g, ok := x.(*ssa.Global); ok {
							if pat := globalRegexpPattern(prog5.prog, g); pat != "" {
								if re, err := regexp.Compile(pat); err == nil {
									nc.regexps = append(nc.regexps, re)
								}
							}
						}
					}
				case cal.Pkg != nil && cal.Pkg.Pkg.Path() == "strings" && (cal.Name() == "HasPrefix" || cal.Name() == "Contains"):
					if k, ok := args[1].(*ssa.Const); ok && k.Value != nil && passes == 0 {
						nc.prefixes = append(nc.prefixes, constant.StringVal(k.Value))
					}
				case cal.Pkg != nil && strings.HasPrefix(cal.Pkg.Pkg.Path(), core.ModPath) && cal.Blocks != nil:
					sub := prog5.cases(cal)
					// the callee's name parameter must be the one we pass
					for n := range sub.exact {
						nc.exact[n] = true
					}
					nc.regexps = append(nc.regexps, sub.regexps...)
					nc.prefixes = append(nc.prefixes, sub.prefixes...)
					for n, ks := range sub.kinds {
						if nc.kinds[n] == nil {
							nc.kinds[n] = map[string]bool{}
						}
						for k := range ks {
							nc.kinds[n][k] = true
						}
					}
					for n, ks := range sub.setKinds {
						if nc.setKinds[n] == nil {
							nc.setKinds[n] = map[string]bool{}
						}
						for k := range ks {
							nc.setKinds[n][k] = true
						}
					}
				}
			}
		}
	}
	return nc
}

// armKinds: kinds of the values returned (with a nil error) in the blocks dominated by the arm.
func (prog5 *c05vars) armKinds(fn *ssa.Function, arm *ssa.BasicBlock, name string, nc *nameCases) {
	if len(arm.Preds) != 1 {
		return // `case A, B:` arms are shared, kinds are recorded per single-name arm only
	}
	// Set: the storage assigned through doAssign(storage, operator, value)
	for _, b := range fn.Blocks {
		if !arm.Dominates(b) {
			continue
		}
		for _, in := range b.Instrs {
			if cal := core.StaticCallee(in); cal != nil && cal.Name() == "doAssign" {
				if k := valueKindOf(in.(ssa.CallInstruction).Common().Args[0]); k != "" {
					if nc.setKinds[name] == nil {
						nc.setKinds[name] = map[string]bool{}
					}
					nc.setKinds[name][k] = true
				}
			}
		}
	}
	for _, rs := range core.ReturnSites(fn) {
		if !arm.Dominates(rs.Ret.Block()) || len(rs.Results) != 2 || !core.IsNilConst(rs.Results[1]) {
			continue
		}
		k := valueKindOf(rs.Results[0])
		if nc.kinds[name] == nil {
			nc.kinds[name] = map[string]bool{}
		}
		nc.kinds[name][k] = true
	}
}

// valueKindOf: the VCL kind of a value.Value expression when its concrete type is statically known, "" otherwise.
func valueKindOf(v ssa.Value) string {
	if mi, ok := v.(*ssa.MakeInterface); ok {
		switch core.NamedTypeName(derefType(mi.X.Type())) {
		case "Integer":
			return "INTEGER"
		case "Float":
			return "FLOAT"
		case "String":
			return "STRING"
		case "Boolean":
			return "BOOL"
		case "RTime":
			return "RTIME"
		case "Time":
			return "TIME"
		case "IP":
			return "IP"
		case "Backend":
			return "BACKEND"
		case "Acl":
			return "ACL"
		}
	}
	return ""
}

type c05vars struct {
	prog *core.Program
	memo map[*ssa.Function]*nameCases
}

func (nc *nameCases) handles(name string) bool {
	if nc.exact[name] {
		return true
	}
	for _, re := range nc.regexps {
		if re.MatchString(name) {
			return true
		}
	}
	for _, p := range nc.prefixes {
		if strings.HasPrefix(name, p) || strings.Contains(name, p) {
			return true
		}
	}
	return false
}

func checkVariableTables(c *core.Ctx, lp *packages.Package, lintScope map[string]int64) {
	prog := c.Prog
	lit := funcReturnLit(lp, "predefinedVariables")
	if lit == nil {
		c.MissingAnchor("ref.var", "linter/context.predefinedVariables")
		return
	}
	var accs []lintAccessor
	flattenVariables(lp, lit, "", &accs)
	if len(accs) < 400 {
		c.MissingAnchor("ref.var", fmt.Sprintf("linter variable table (%d accessors)", len(accs)))
		return
	}
	cv := &c05vars{prog: prog, memo: map[*ssa.Function]*nameCases{}}
	// the variable object per scope
	per := map[string]map[string]*nameCases{}
	for _, s := range scopeNames {
		tn := strings.Title(strings.ToLower(s)) + "ScopeVariables"
		per[s] = map[string]*nameCases{}
		for _, op := range []string{"Get", "Set", "Unset"} {
			fn := prog.SSAFunc("interpreter/variable", tn+"."+op)
			if fn == nil {
				c.MissingAnchor("ref.var", "interpreter/variable.(*"+tn+")."+op)
				continue
			}
			c.Func(core.FnName(fn))
			per[s][op] = cv.cases(fn)
		}
	}
	sort.Slice(accs, func(i, j int) bool { return accs[i].name < accs[j].name })
	for _, a := range accs {
		sample := strings.ReplaceAll(a.name, "%any%", "xany")
		for _, op := range []string{"Get", "Set", "Unset"} {
			allowed := (op == "Get" && a.get != "NeverType" && a.get != "") || (op == "Set" && a.set != "NeverType" && a.set != "") || (op == "Unset" && a.unset)
			if !allowed {
				continue
			}
			var missing []string
			nsc := 0
			for _, s := range scopeNames {
				if a.scopes&lintScope[s] == 0 || per[s][op] == nil {
					continue
				}
				nsc++
				if !per[s][op].handles(sample) {
					missing = append(missing, s)
				}
			}
			key := fmt.Sprintf("var|%s|%s", strings.ToLower(op), a.name)
			if len(missing) == 0 {
				c.Discharge("ref.var", key, a.pos, fmt.Sprintf("recognised by the simulator in all %d scope(s) the linter allows", nsc))
			} else {
				c.Report("ref.var", key+"|"+strings.Join(missing, ","), a.pos, fmt.Sprintf("the linter accepts %s of %s in {%s} but the simulator's variable objects for those scopes have no case for it: lint-clean VCL fails at run time as undefined/unsupported", strings.ToLower(op), a.name, strings.Join(missing, ",")))
			}
		}
		// kind agreement for Set: the storage the simulator assigns into has the kind the linter declares
		if a.set != "" && a.set != "NeverType" && !a.hasWildcard {
			want := lintToSimType[a.set]
			kinds := map[string]bool{}
			for _, s := range scopeNames {
				if a.scopes&lintScope[s] == 0 || per[s]["Set"] == nil {
					continue
				}
				for k := range per[s]["Set"].setKinds[a.name] {
					kinds[k] = true
				}
			}
			if want != "" && len(kinds) > 0 {
				var ks []string
				for k := range kinds {
					ks = append(ks, k)
				}
				sort.Strings(ks)
				key := "settype|" + a.name
				if len(ks) == 1 && ks[0] == want {
					c.Discharge("ref.settype", key, a.pos, want)
				} else {
					c.Report("ref.settype", key, a.pos, fmt.Sprintf("the linter declares %s settable as %s but the simulator assigns it into %s storage: a lint-clean `set %s` fails at run time with a type error", a.name, want, strings.Join(ks, "/"), a.name))
				}
			}
		}
		// kind agreement for Get
		if a.get != "" && a.get != "NeverType" && !a.hasWildcard {
			want := lintToSimType[a.get]
			kinds := map[string]bool{}
			for _, s := range scopeNames {
				if a.scopes&lintScope[s] == 0 || per[s]["Get"] == nil {
					continue
				}
				for k := range per[s]["Get"].kinds[a.name] {
					if k != "" {
						kinds[k] = true
					}
				}
			}
			if want != "" && len(kinds) > 0 {
				var ks []string
				for k := range kinds {
					ks = append(ks, k)
				}
				sort.Strings(ks)
				key := "vartype|" + a.name
				if len(ks) == 1 && ks[0] == want {
					c.Discharge("ref.vartype", key, a.pos, want)
				} else {
					c.Report("ref.vartype", key, a.pos, fmt.Sprintf("the linter types %s as %s but the simulator returns %s for it: an expression the linter typed correctly is evaluated on another kind", a.name, want, strings.Join(ks, "/")))
				}
			}
		}
	}
	c.Floor("ref.var", 500)
	c.Floor("ref.vartype", 150)
	c.Floor("ref.settype", 55)
}

// checkMultiScope (ref.multiscope): in a subroutine annotated with several scopes, an access is admitted only when every
// one of them allows it: the accessors of the linter context test `objScopes & current == current` (a subset test),
// not mere overlap (`& != 0`), and no overlap test may short-cut the subset test.
func checkMultiScope(c *core.Ctx) {
	prog := c.Prog
	isField := func(v ssa.Value, name string) bool {
		ld, ok := v.(*ssa.UnOp)
		if !ok || ld.Op != token.MUL {
			return false
		}
		f := core.FieldOf(ld.X)
		return f != nil && f.Name() == name
	}
	// classify the scope tests of a function: operands are (a) loads of .Scopes / .curMode or (b) the given parameters
	type tests struct {
		subset, overlap []*ssa.BinOp
	}
	classify := func(fn *ssa.Function, isObj, isCur func(ssa.Value) bool) tests {
		var t tests
		for _, b := range fn.Blocks {
			for _, in := range b.Instrs {
				and, ok := in.(*ssa.BinOp)
				if !ok || and.Op != token.AND {
					continue
				}
				if !((isObj(and.X) && isCur(and.Y)) || (isObj(and.Y) && isCur(and.X))) || and.Referrers() == nil {
					continue
				}
				for _, r := range *and.Referrers() {
					cmp, ok := r.(*ssa.BinOp)
					if !ok || (cmp.Op != token.EQL && cmp.Op != token.NEQ) {
						continue
					}
					other := cmp.Y
					if cmp.Y == ssa.Value(and) {
						other = cmp.X
					}
					if k, isK := core.ConstIntValue(other); isK && k == 0 {
						t.overlap = append(t.overlap, cmp)
					} else if isCur(other) {
						t.subset = append(t.subset, cmp)
					}
				}
			}
		}
		return t
	}
	helper := prog.SSAFunc("linter/context", "CanAccessVariableInScope")
	helperOK := false
	if helper != nil && len(helper.Params) == 4 {
		ht := classify(helper, func(v ssa.Value) bool { return v == ssa.Value(helper.Params[0]) }, func(v ssa.Value) bool { return v == ssa.Value(helper.Params[3]) })
		helperOK = len(ht.subset) > 0
		if helperOK {
			c.Discharge("ref.multiscope", "CanAccessVariableInScope", helper.Pos(), "fails unless objScope & currentScope == currentScope")
		} else {
			c.Report("ref.multiscope", "CanAccessVariableInScope", helper.Pos(), "CanAccessVariableInScope does not test objScope & currentScope == currentScope: in a multi-scope subroutine a variable is admitted although one of the scopes forbids it")
		}
	}
	for _, name := range []string{"Get", "Set", "Unset", "GetFunction"} {
		fn := prog.SSAFunc("linter/context", "Context."+name)
		if fn == nil {
			c.MissingAnchor("ref.multiscope", "linter/context.(*Context)."+name)
			continue
		}
		c.Func(core.FnName(fn))
		isObj := func(v ssa.Value) bool { return isField(v, "Scopes") }
		isCur := func(v ssa.Value) bool { return isField(v, "curMode") }
		t := classify(fn, isObj, isCur)
		ok := len(t.subset) > 0
		why := "inline subset test"
		cd := core.NewCtrlDeps(fn)
		if !ok && helper != nil && helperOK {
			for _, b := range fn.Blocks {
				for _, in := range b.Instrs {
					call, isCall := in.(*ssa.Call)
					if !isCall || call.Common().StaticCallee() != helper {
						continue
					}
					args := call.Common().Args
					if !isObj(args[0]) || !isCur(args[3]) {
						continue
					}
					// the helper call must not sit behind an overlap test
					behind := false
					for _, e := range cd.Transitive(b) {
						cond := core.BranchCond(e.From)
						for _, ov := range t.overlap {
							if cond == ssa.Value(ov) {
								behind = true
							}
						}
					}
					if !behind {
						ok = true
						why = "CanAccessVariableInScope(obj.Scopes, …, curMode), not short-cut by an overlap test"
					}
				}
			}
		}
		if ok {
			c.Discharge("ref.multiscope", name, fn.Pos(), why)
		} else {
			c.Report("ref.multiscope", name, fn.Pos(), fmt.Sprintf("(*Context).%s admits an access when the object's scopes merely overlap the current scopes (no `Scopes & curMode == curMode` test reaches every access): in a subroutine annotated with several scopes the linter accepts what one of those scopes forbids, and the simulator fails there", name))
		}
	}
	c.Floor("ref.multiscope", 4)
}

// checkLiteralPredicate (ref.litpred): the operator tables of the linter have two halves, one for a literal right-hand
// side and one for a variable, and the simulator draws the same line (a literal RTIME cannot be added to an INTEGER, a
// variable can). Which half applies is decided by a predicate on the value expression, handed to the lint*Operator
// functions as their last argument. All call sites must use the same predicate: two predicates that disagree on one
// kind of literal (isTypeLiteral does not know RTIME) make the linter admit in one operator what it rejects in its
// sibling and what the simulator rejects in both.
func checkLiteralPredicate(c *core.Ctx) {
	prog := c.Prog
	type site struct {
		call *ssa.Call
		pred string
	}
	var sites []site
	count := map[string]int{}
	for _, fn := range prog.ModuleFuncs("linter") {
		if fn.Pkg == nil || fn.Pkg.Pkg.Path() != core.ModPath+"/linter" {
			continue
		}
		for _, b := range fn.Blocks {
			for _, in := range b.Instrs {
				call, ok := in.(*ssa.Call)
				if !ok {
					continue
				}
				cal := call.Common().StaticCallee()
				if cal == nil || !strings.HasPrefix(cal.Name(), "lint") || !strings.HasSuffix(cal.Name(), "Operator") || len(cal.Params) == 0 {
					continue
				}
				last := cal.Params[len(cal.Params)-1]
				if bt, isB := last.Type().Underlying().(*types.Basic); !isB || bt.Kind() != types.Bool {
					continue
				}
				arg := call.Common().Args[len(call.Common().Args)-1]
				pred := ""
				for x := range core.BackSliceLocal(arg) {
					if pc, isCall := x.(*ssa.Call); isCall {
						if pf := pc.Common().StaticCallee(); pf != nil && pf.Pkg != nil && pf.Pkg.Pkg.Path() == core.ModPath+"/linter" {
							pred = pf.Name()
						}
					}
				}
				if pred == "" {
					continue
				}
				sites = append(sites, site{call, pred})
				count[pred]++
			}
		}
	}
	major := ""
	for p, n := range count {
		if n > count[major] || (n == count[major] && p < major) {
			major = p
		}
	}
	ord := map[string]int{}
	for _, s := range sites {
		fn := s.call.Parent()
		key := fmt.Sprintf("%s|%s", core.FnName(fn), s.call.Common().StaticCallee().Name())
		ord[key]++
		if ord[key] > 1 {
			key = fmt.Sprintf("%s#%d", key, ord[key])
		}
		if s.pred == major {
			c.Discharge("ref.litpred", key, s.call.Pos(), "literal / variable decided by "+major)
		} else {
			c.Report("ref.litpred", key, s.call.Pos(), fmt.Sprintf("%s decides literal / variable with %s while the %d sibling call sites use %s: the two predicates disagree on some literal kinds, so this operator's table is entered in the wrong half and the linter admits an assignment the simulator rejects", core.FnName(fn), s.pred, count[major], major))
		}
	}
	c.Floor("ref.litpred", 4)
}

// checkStatementScopeGuards (ref.multiscope, statements): the statement linters admit restart / error / synthetic by
// a test of the current mode against a constant set of scopes. In a subroutine annotated with (or inferred to run in)
// several scopes the mode has several bits: `mode & allowed == 0` only asks whether *some* scope allows the
// statement, and the simulator fails in the others. Next to every such overlap test the same function must test that
// no bit lies outside the set (`mode &^ allowed != 0`, or `mode & allowed != mode`).
func checkStatementScopeGuards(c *core.Ctx) {
	n := 0
	for _, fn := range c.Prog.ModuleFuncs("linter") {
		if fn.Pkg == nil || fn.Pkg.Pkg.Path() != core.ModPath+"/linter" {
			continue
		}
		isMode := func(v ssa.Value) bool {
			call, ok := v.(*ssa.Call)
			return ok && call.Common().StaticCallee() != nil && call.Common().StaticCallee().Name() == "Mode"
		}
		var overlap []*ssa.BinOp
		outside := map[int64]bool{}
		for _, b := range fn.Blocks {
			for _, in := range b.Instrs {
				bo, ok := in.(*ssa.BinOp)
				if !ok || bo.Referrers() == nil {
					continue
				}
				k, isK := core.ConstIntValue(bo.Y)
				if !isMode(bo.X) || !isK {
					continue
				}
				for _, r := range *bo.Referrers() {
					cmp, isCmp := r.(*ssa.BinOp)
					if !isCmp || (cmp.Op != token.EQL && cmp.Op != token.NEQ) {
						continue
					}
					other := cmp.Y
					if cmp.Y == ssa.Value(bo) {
						other = cmp.X
					}
					z, isZ := core.ConstIntValue(other)
					switch {
					case bo.Op == token.AND && isZ && z == 0:
						overlap = append(overlap, bo)
					case bo.Op == token.AND_NOT && isZ && z == 0:
						outside[k] = true
					case bo.Op == token.AND && isMode(other):
						outside[k] = true
					}
				}
			}
		}
		for i, bo := range overlap {
			k, _ := core.ConstIntValue(bo.Y)
			n++
			key := fmt.Sprintf("%s|mode&set#%d", core.FnName(fn), i+1)
			if outside[k] {
				c.Discharge("ref.multiscope", key, bo.Pos(), "the same function also rejects a mode with a scope outside the set")
			} else {
				c.Report("ref.multiscope", key, bo.Pos(), fmt.Sprintf("%s admits the statement when the current mode merely overlaps the allowed scopes (`mode & set == 0` is its only test): in a subroutine that runs in several scopes (`// @scope: recv, miss`) the statement lints clean although one of the scopes forbids it, and the simulator fails there", core.FnName(fn)))
			}
		}
	}
	_ = n
}
