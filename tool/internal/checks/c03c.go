package checks

import (
	"fmt"
	"go/constant"
	"go/types"
	"os"
	"strings"

	"fv/internal/core"

	"golang.org/x/tools/go/ssa"
)

// rawCommentCallers: the formatter functions that may ask for comments without the terminating line feed, one reason
// each.
var rawCommentCallers = map[string]string{
	"trailing":         "trailing comments end the line: the statement printer writes the line feed itself",
	"formatExpression": "the comments become Comment chunks; the line-breaking pass terminates line comments (fmt.linecmt)",
	"formatComment":    "the forwarding wrapper itself (passes true)",
}

// checkInlineComments (fmt.inlinecmt): a line comment (`// …`, `# …`) printed between the tokens of a line comments out
// whatever follows it on that line. Decided as three structural clauses:
//
//	(a) the formatter renders comments only through its own comment printer: no formatter function calls a
//	    comment-bearing renderer of package ast (Meta.LeadingComment/TrailingComment/InfixComment and every String()
//	    that reaches them), whose inline mode joins comments with a blank;
//	(b) in the comment printer's loop, the write of the caller's separator is control dependent on the line-break
//	    switch / on a test for the block-comment marker "/*", i.e. a line comment does not get the separator but a
//	    line feed;
//	(c) only the named callers switch the line feed off.
func checkInlineComments(c *core.Ctx) {
	prog := c.Prog
	// ---- (a)
	cb := map[*ssa.Function]bool{}
	astFuncs := prog.ModuleFuncs("ast")
	for _, fn := range astFuncs {
		if fn.Pkg != nil && fn.Pkg.Pkg.Path() == astPkgPath && fn.Signature.Recv() != nil && core.NamedTypeName(derefType(fn.Signature.Recv().Type())) == "Meta" {
			switch fn.Name() {
			case "LeadingComment", "TrailingComment", "InfixComment", "comment":
				cb[fn] = true
			}
		}
	}
	if len(cb) < 3 {
		c.MissingAnchor("fmt.inlinecmt", "ast.(*Meta).LeadingComment/TrailingComment/InfixComment")
		return
	}
	for changed := true; changed; {
		changed = false
		for _, fn := range astFuncs {
			if cb[fn] || fn.Pkg == nil || fn.Pkg.Pkg.Path() != astPkgPath {
				continue
			}
			for _, b := range fn.Blocks {
				for _, in := range b.Instrs {
					if cal := core.StaticCallee(in); cal != nil && cb[cal] {
						cb[fn] = true
						changed = true
					}
				}
			}
		}
	}
	nCalls := 0
	for _, fn := range prog.ModuleFuncs("formatter") {
		perFn := map[string]int{}
		for _, b := range fn.Blocks {
			for _, in := range b.Instrs {
				cal := core.StaticCallee(in)
				if cal == nil || !cb[cal] {
					continue
				}
				nCalls++
				name := core.FnName(cal)
				perFn[name]++
				c.Report("fmt.inlinecmt", fmt.Sprintf("%s|calls %s#%d", core.FnName(fn), name, perFn[name]), in.Pos(), fmt.Sprintf("%s prints through %s, a renderer of package ast that joins the node's comments with a blank: a line comment in that position (e.g. `acl internal // note` before the brace) comments out the rest of the printed line, and the formatted text no longer parses", core.FnName(fn), name))
			}
		}
	}
	if nCalls == 0 {
		c.Discharge("fmt.inlinecmt", "ast-renderers", 0, fmt.Sprintf("no formatter function calls one of the %d comment-bearing renderers of package ast", len(cb)))
	}
	// ---- (b) the comment printer
	fc := prog.SSAFunc("formatter", "Formatter.formatComment")
	for hops := 0; fc != nil && hops < 3; hops++ {
		if len(naturalLoops(fc)) > 0 {
			break
		}
		var next *ssa.Function
		for _, b := range fc.Blocks {
			for _, in := range b.Instrs {
				if cal := core.StaticCallee(in); cal != nil && cal.Pkg == fc.Pkg && len(cal.Params) > 1 {
					args := in.(ssa.CallInstruction).Common().Args
					if len(args) > 1 && args[1] == ssa.Value(fc.Params[1]) {
						next = cal
					}
				}
			}
		}
		if next == nil {
			break
		}
		fc = next
	}
	if fc == nil || len(naturalLoops(fc)) == 0 {
		c.MissingAnchor("fmt.inlinecmt", "formatter.(*Formatter).formatComment (the loop over the comments)")
		return
	}
	var sepParam, switchParam *ssa.Parameter
	for _, p := range fc.Params[1:] {
		if bt, ok := p.Type().Underlying().(*types.Basic); ok {
			switch bt.Kind() {
			case types.String:
				sepParam = p
			case types.Bool:
				switchParam = p
			}
		}
	}
	if sepParam == nil {
		c.MissingAnchor("fmt.inlinecmt", "separator parameter of the comment printer")
		return
	}
	cd := core.NewCtrlDeps(fc)
	guardedByMarker := func(b *ssa.BasicBlock) bool {
		for _, e := range cd.Transitive(b) {
			cond := core.BranchCond(e.From)
			if cond == nil {
				continue
			}
			for x := range shortCircuitSlice(cd, cond) {
				if call, ok := x.(*ssa.Call); ok {
					if cal := call.Common().StaticCallee(); cal != nil && cal.Name() == "HasPrefix" && len(call.Common().Args) == 2 {
						if k, ok := call.Common().Args[1].(*ssa.Const); ok && k.Value != nil && k.Value.Kind() == constant.String && constant.StringVal(k.Value) == "/*" {
							return true
						}
					}
				}
				if switchParam != nil && x == ssa.Value(switchParam) {
					if os.Getenv("FV_DEBUG_INLINE") != "" {
						fmt.Fprintf(os.Stderr, "GUARD block %d via edge from block %d cond %s\n", b.Index, e.From.Index, cond)
					}
					return true
				}
			}
		}
		return false
	}
	nSep := 0
	for _, b := range fc.Blocks {
		for _, in := range b.Instrs {
			call, ok := in.(*ssa.Call)
			if !ok || call.Common().StaticCallee() == nil || call.Common().StaticCallee().Name() != "WriteString" || len(call.Common().Args) < 2 {
				continue
			}
			if call.Common().Args[1] != ssa.Value(sepParam) {
				continue
			}
			nSep++
			key := fmt.Sprintf("%s|write separator#%d", fc.Name(), nSep)
			if guardedByMarker(b) {
				c.Discharge("fmt.inlinecmt", key, in.Pos(), "the separator is written only where the line-break switch is off or the comment is a block comment; a line comment gets a line feed")
			} else {
				c.Report("fmt.inlinecmt", key, in.Pos(), fmt.Sprintf("%s writes the caller's separator after every comment, whatever its kind: with a blank or empty separator a line comment is followed by the next tokens on the same line, which comments them out", fc.Name()))
			}
		}
	}
	if nSep == 0 {
		c.MissingAnchor("fmt.inlinecmt", "write of the separator in the comment printer")
	}
	// ---- (c) who switches the line feed off
	if switchParam != nil {
		idx := 0
		for i, p := range fc.Params {
			if p == switchParam {
				idx = i
			}
		}
		for _, g := range prog.ModuleFuncs("formatter") {
			for _, b := range g.Blocks {
				for _, in := range b.Instrs {
					if core.StaticCallee(in) != fc {
						continue
					}
					arg := in.(ssa.CallInstruction).Common().Args[idx]
					k, isK := arg.(*ssa.Const)
					if isK && k.Value != nil && constant.BoolVal(k.Value) {
						continue
					}
					key := core.FnName(g) + "|raw comments"
					if why := rawCommentCallers[g.Name()]; why != "" {
						c.Discharge("fmt.inlinecmt", key, in.Pos(), "named caller: "+why)
					} else {
						c.Report("fmt.inlinecmt", key, in.Pos(), fmt.Sprintf("%s asks the comment printer for comments without the terminating line feed; only %s may (a line feed follows there by construction)", core.FnName(g), strings.Join([]string{"trailing", "formatExpression"}, ", ")))
					}
				}
			}
		}
	}
}

// shortCircuitSlice: the data slice of a branch condition, extended through the lowering of && and ||: for every phi of
// the slice, the conditions of the branches that end its predecessor blocks (the left operands) and their data slices.
// Control dependence in general is not followed (inside a loop it would reach every earlier branch of the body through
// the loop-carried index).
func shortCircuitSlice(cd *core.CtrlDeps, cond ssa.Value) map[ssa.Value]bool {
	out := map[ssa.Value]bool{}
	var work []ssa.Value
	work = append(work, cond)
	for len(work) > 0 {
		v := work[len(work)-1]
		work = work[:len(work)-1]
		for x := range core.BackSlice(v) {
			if out[x] {
				continue
			}
			out[x] = true
			phi, ok := x.(*ssa.Phi)
			if !ok {
				continue
			}
			if bt, ok := phi.Type().Underlying().(*types.Basic); !ok || bt.Kind() != types.Bool {
				continue
			}
			for _, p := range phi.Block().Preds {
				if c2 := core.BranchCond(p); c2 != nil && !out[c2] {
					work = append(work, c2)
				}
			}
		}
	}
	return out
}
