# sourced by every command: the default go (1.23.5) cannot load /repo under GOTOOLCHAIN=local
export PATH=/opt/veriftools/go1.26.8/bin:$PATH
export GOTOOLCHAIN=local GOFLAGS=-mod=mod GOPROXY=off GOSUMDB=off GOWORK=off
unset GOROOT
