// Package core holds the shared infrastructure of the falco static checkers:
// loading /repo's current working tree into a type-checked program (and SSA),
// findings, known-findings matching, evidence and replay files.
package core

import (
	"fmt"
	"go/ast"
	"go/constant"
	"go/token"
	"go/types"
	"os"
	"path/filepath"
	"sort"
	"strings"

	"golang.org/x/tools/go/packages"
	"golang.org/x/tools/go/ssa"
	"golang.org/x/tools/go/ssa/ssautil"
)

const ModPath = "github.com/ysugimoto/falco/v2"

// CanaryPrefix marks overlay files that are added to a package in memory only.
const CanaryPrefix = "zz_fv_canary_"

type Program struct {
	Repo string
	Fset *token.FileSet
	Pkgs []*packages.Package
	// Queried: the module-relative package prefixes the running check asked functions of (ModuleFuncs)
	Queried map[string]bool
	ByPath  map[string]*packages.Package // keyed by path relative to the module ("parser", "ast/codec", "" for none)
	SSA     *ssa.Program
	SSAPkg  map[string]*ssa.Package // same key

	parents map[*ast.File]map[ast.Node]ast.Node
}

type LoadOpts struct {
	SSA     bool
	Overlay map[string][]byte // absolute path -> content
	// Patterns defaults to ./...
	Patterns []string
}

func RepoDir() string {
	if d := os.Getenv("FV_REPO"); d != "" {
		return d
	}
	return "/repo"
}

func VerifDir() string {
	if d := os.Getenv("FV_VERIF"); d != "" {
		return d
	}
	if wd, err := os.Getwd(); err == nil {
		if _, err := os.Stat(filepath.Join(wd, "properties.jsonl")); err == nil {
			return wd
		}
	}
	return "/verif"
}

func Load(opts LoadOpts) (*Program, error) {
	repo := RepoDir()
	fset := token.NewFileSet()
	pats := opts.Patterns
	if len(pats) == 0 {
		pats = []string{"./..."}
	}
	cfg := &packages.Config{
		Mode: packages.NeedName | packages.NeedFiles | packages.NeedCompiledGoFiles | packages.NeedImports |
			packages.NeedDeps | packages.NeedTypes | packages.NeedSyntax | packages.NeedTypesInfo | packages.NeedTypesSizes | packages.NeedModule,
		Dir:     repo,
		Fset:    fset,
		Tests:   false,
		Overlay: opts.Overlay,
		Env:     append(os.Environ(), "GOWORK=off", "GOFLAGS=-mod=mod", "GOPROXY=off", "GOSUMDB=off", "GOTOOLCHAIN=local"),
	}
	pkgs, err := packages.Load(cfg, pats...)
	if err != nil {
		return nil, fmt.Errorf("packages.Load: %w", err)
	}
	p := &Program{Repo: repo, Fset: fset, ByPath: map[string]*packages.Package{}, SSAPkg: map[string]*ssa.Package{}, parents: map[*ast.File]map[ast.Node]ast.Node{}}
	var errs []string
	for _, pk := range pkgs {
		for _, e := range pk.Errors {
			errs = append(errs, pk.PkgPath+": "+e.Error())
		}
		if !strings.HasPrefix(pk.PkgPath, ModPath) {
			continue
		}
		rel := strings.TrimPrefix(strings.TrimPrefix(pk.PkgPath, ModPath), "/")
		p.ByPath[rel] = pk
		p.Pkgs = append(p.Pkgs, pk)
	}
	if len(errs) > 0 {
		if len(errs) > 8 {
			errs = errs[:8]
		}
		return nil, fmt.Errorf("type-check errors in /repo (analysis that did not see the code proves nothing): %s", strings.Join(errs, "; "))
	}
	sort.Slice(p.Pkgs, func(i, j int) bool { return p.Pkgs[i].PkgPath < p.Pkgs[j].PkgPath })
	if len(opts.Patterns) == 0 && len(p.Pkgs) < 40 {
		return nil, fmt.Errorf("only %d falco packages loaded (expected >= 40)", len(p.Pkgs))
	}
	if opts.SSA {
		prog, spkgs := ssautil.Packages(pkgs, ssa.InstantiateGenerics)
		for i, sp := range spkgs {
			if sp == nil {
				continue
			}
			pk := pkgs[i]
			if strings.HasPrefix(pk.PkgPath, ModPath) {
				rel := strings.TrimPrefix(strings.TrimPrefix(pk.PkgPath, ModPath), "/")
				p.SSAPkg[rel] = sp
			}
		}
		prog.Build()
		p.SSA = prog
	}
	return p, nil
}

// Pkg returns the package at the module-relative path or nil.
func (p *Program) Pkg(rel string) *packages.Package { return p.ByPath[rel] }

// Rel returns the repo-relative file name of pos.
func (p *Program) Rel(pos token.Pos) string {
	if !pos.IsValid() {
		return "?"
	}
	f := p.Fset.Position(pos).Filename
	if r, err := filepath.Rel(p.Repo, f); err == nil {
		return r
	}
	return f
}

func (p *Program) Line(pos token.Pos) int {
	if !pos.IsValid() {
		return 0
	}
	return p.Fset.Position(pos).Line
}

func (p *Program) Loc(pos token.Pos) string {
	return fmt.Sprintf("%s:%d", p.Rel(pos), p.Line(pos))
}

// IsCanary reports whether pos lies in an in-memory canary overlay file.
func (p *Program) IsCanary(pos token.Pos) bool {
	if !pos.IsValid() {
		return false
	}
	return strings.HasPrefix(filepath.Base(p.Fset.Position(pos).Filename), CanaryPrefix)
}

// FuncDecls iterates over all function declarations (with bodies) of the package.
func FuncDecls(pk *packages.Package) []*ast.FuncDecl {
	var out []*ast.FuncDecl
	for _, f := range pk.Syntax {
		for _, d := range f.Decls {
			if fd, ok := d.(*ast.FuncDecl); ok && fd.Body != nil {
				out = append(out, fd)
			}
		}
	}
	return out
}

// FuncName returns "pkg.(*Recv).Name" / "pkg.Name" for a declaration.
func FuncName(pk *packages.Package, fd *ast.FuncDecl) string {
	obj, _ := pk.TypesInfo.Defs[fd.Name].(*types.Func)
	if obj == nil {
		return pk.Name + "." + fd.Name.Name
	}
	return ShortFunc(obj)
}

// ShortFunc renders a *types.Func as "pkgrel.(*T).M" with the module-relative package path.
func ShortFunc(f *types.Func) string {
	if f == nil {
		return "<nil>"
	}
	pkg := ""
	if f.Pkg() != nil {
		pkg = strings.TrimPrefix(strings.TrimPrefix(f.Pkg().Path(), ModPath), "/")
		if pkg == "" {
			pkg = f.Pkg().Name()
		}
	}
	sig, _ := f.Type().(*types.Signature)
	if sig != nil && sig.Recv() != nil {
		t := sig.Recv().Type()
		star := ""
		if pt, ok := t.(*types.Pointer); ok {
			t = pt.Elem()
			star = "*"
		}
		name := "?"
		if nt, ok := t.(*types.Named); ok {
			name = nt.Obj().Name()
		} else if at, ok := t.(*types.Alias); ok {
			name = at.Obj().Name()
		}
		return fmt.Sprintf("%s.(%s%s).%s", pkg, star, name, f.Name())
	}
	return pkg + "." + f.Name()
}

// FindFunc resolves "Name" or "Recv.Name" in a package; nil when absent.
func (p *Program) FindFunc(rel, name string) (*packages.Package, *ast.FuncDecl) {
	pk := p.ByPath[rel]
	if pk == nil {
		return nil, nil
	}
	recv := ""
	if i := strings.Index(name, "."); i >= 0 {
		recv, name = name[:i], name[i+1:]
	}
	for _, fd := range FuncDecls(pk) {
		if fd.Name.Name != name {
			continue
		}
		if recv == "" && fd.Recv == nil {
			return pk, fd
		}
		if recv != "" && fd.Recv != nil && len(fd.Recv.List) == 1 && RecvTypeName(fd.Recv.List[0].Type) == recv {
			return pk, fd
		}
	}
	return pk, nil
}

func RecvTypeName(e ast.Expr) string {
	switch t := e.(type) {
	case *ast.StarExpr:
		return RecvTypeName(t.X)
	case *ast.Ident:
		return t.Name
	case *ast.IndexExpr:
		return RecvTypeName(t.X)
	case *ast.IndexListExpr:
		return RecvTypeName(t.X)
	}
	return ""
}

// SSAFunc resolves the ssa function of a declared function/method "Name" or "Recv.Name".
func (p *Program) SSAFunc(rel, name string) *ssa.Function {
	// a rule that anchors in a function of a package analyses that package (restructuring tolerance, report.go)
	if p.Queried == nil {
		p.Queried = map[string]bool{}
	}
	p.Queried[rel] = true
	pk, fd := p.FindFunc(rel, name)
	if fd == nil || p.SSA == nil {
		return nil
	}
	obj, _ := pk.TypesInfo.Defs[fd.Name].(*types.Func)
	if obj == nil {
		return nil
	}
	return p.SSA.FuncValue(obj)
}

// Callee resolves the static callee (function or method) of a call, or nil.
func Callee(info *types.Info, call *ast.CallExpr) *types.Func {
	fun := ast.Unparen(call.Fun)
	switch f := fun.(type) {
	case *ast.IndexExpr:
		fun = f.X
	case *ast.IndexListExpr:
		fun = f.X
	}
	switch f := fun.(type) {
	case *ast.Ident:
		if fn, ok := info.Uses[f].(*types.Func); ok {
			return fn
		}
	case *ast.SelectorExpr:
		if sel, ok := info.Selections[f]; ok {
			if fn, ok := sel.Obj().(*types.Func); ok {
				return fn
			}
			return nil
		}
		if fn, ok := info.Uses[f.Sel].(*types.Func); ok {
			return fn
		}
	}
	return nil
}

// IsFunc reports whether fn is pkgpath.name (function) or pkgpath.Recv.name (method).
func IsFunc(fn *types.Func, pkgPath, name string) bool {
	if fn == nil || fn.Pkg() == nil || fn.Pkg().Path() != pkgPath {
		return false
	}
	recv := ""
	if i := strings.Index(name, "."); i >= 0 {
		recv, name = name[:i], name[i+1:]
	}
	if fn.Name() != name {
		return false
	}
	sig := fn.Type().(*types.Signature)
	if recv == "" {
		return sig.Recv() == nil
	}
	if sig.Recv() == nil {
		return false
	}
	return NamedTypeName(sig.Recv().Type()) == recv
}

// NamedTypeName returns the name of the (pointer to) named type, or "".
func NamedTypeName(t types.Type) string {
	t = types.Unalias(t)
	if pt, ok := t.(*types.Pointer); ok {
		t = types.Unalias(pt.Elem())
	}
	if nt, ok := t.(*types.Named); ok {
		return nt.Obj().Name()
	}
	return ""
}

// NamedTypePkgName returns "pkgpath.Name" of the (pointer to) named type, or "".
func NamedTypePkgName(t types.Type) string {
	t = types.Unalias(t)
	if pt, ok := t.(*types.Pointer); ok {
		t = types.Unalias(pt.Elem())
	}
	if nt, ok := t.(*types.Named); ok {
		if nt.Obj().Pkg() == nil {
			return nt.Obj().Name()
		}
		return nt.Obj().Pkg().Path() + "." + nt.Obj().Name()
	}
	return ""
}

// Parent returns the parent map of a file (lazily built).
func (p *Program) Parents(f *ast.File) map[ast.Node]ast.Node {
	if m, ok := p.parents[f]; ok {
		return m
	}
	m := map[ast.Node]ast.Node{}
	var stack []ast.Node
	ast.Inspect(f, func(n ast.Node) bool {
		if n == nil {
			stack = stack[:len(stack)-1]
			return true
		}
		if len(stack) > 0 {
			m[n] = stack[len(stack)-1]
		}
		stack = append(stack, n)
		return true
	})
	p.parents[f] = m
	return m
}

// FileOf returns the syntax file containing pos.
func (p *Program) FileOf(pk *packages.Package, pos token.Pos) *ast.File {
	for _, f := range pk.Syntax {
		if f.FileStart <= pos && pos <= f.FileEnd {
			return f
		}
	}
	return nil
}

// ExprString renders an expression compactly (types.ExprString elides literals; good enough for keys).
func ExprString(e ast.Expr) string { return types.ExprString(e) }

// ConstString returns the constant string value of e, if any.
func ConstString(info *types.Info, e ast.Expr) (string, bool) {
	tv, ok := info.Types[e]
	if !ok || tv.Value == nil || tv.Value.Kind() != constant.String {
		return "", false
	}
	return constant.StringVal(tv.Value), true
}

// ConstInt returns the constant integer value of e, if any.
func ConstInt(info *types.Info, e ast.Expr) (int64, bool) {
	tv, ok := info.Types[e]
	if !ok || tv.Value == nil || tv.Value.Kind() != constant.Int {
		return 0, false
	}
	return constant.Int64Val(tv.Value)
}

// ConstInt64 returns the integer value of a typed constant.
func ConstInt64(k *types.Const) (int64, bool) {
	if k == nil || k.Val() == nil || k.Val().Kind() != constant.Int {
		return 0, false
	}
	return constant.Int64Val(k.Val())
}
