package checks

import (
	"fmt"
	"go/types"

	"fv/internal/core"

	"golang.org/x/tools/go/ssa"
)

// C16 — `fmt --write` never damages the file it rewrites (E12 fsatomic).
//
// Decided from the source:
//
//	fsatomic.nowrite  no in-place write/truncate/create on a path derived from the input VCL's name
//	fsatomic.rename   the input path changes only through os.Rename(tmp, path) where tmp is a fresh temp file,
//	                  and the rename is dominated by the success edge of every preceding write to tmp,
//	                  at least one such write exists, and it copies the formatter's result
//	fsatomic.nilreader every use of (*Formatter).Format's result is dominated by a non-nil test (Format has a nil return)
func init() {
	register(&Check{ID: "C16", NeedSSA: true, Run: runC16})
}

type inputPathTaint struct {
	prog          *core.Program
	taintedParams map[*ssa.Parameter]bool
}

func isInputPathSource(v ssa.Value) bool {
	switch v.(type) {
	case *ssa.FieldAddr, *ssa.Field:
		f := core.FieldOf(v)
		if f != nil && f.Name() == "Name" && core.FieldOwner(v) == core.ModPath+"/resolver.VCL" {
			return true
		}
	}
	return false
}

func (t *inputPathTaint) tainted(v ssa.Value) bool {
	for x := range core.BackSlice(v) {
		if isInputPathSource(x) {
			return true
		}
		if p, ok := x.(*ssa.Parameter); ok && t.taintedParams[p] {
			return true
		}
	}
	return false
}

func newInputPathTaint(prog *core.Program, funcs []*ssa.Function) *inputPathTaint {
	t := &inputPathTaint{prog: prog, taintedParams: map[*ssa.Parameter]bool{}}
	for changed := true; changed; {
		changed = false
		for _, fn := range funcs {
			for _, b := range fn.Blocks {
				for _, in := range b.Instrs {
					ci, ok := in.(ssa.CallInstruction)
					if !ok {
						continue
					}
					callee := ci.Common().StaticCallee()
					if callee == nil || callee.Blocks == nil || callee.Pkg == nil || t.prog.SSAPkg == nil {
						continue
					}
					if callee.Pkg.Pkg == nil || len(callee.Pkg.Pkg.Path()) < len(core.ModPath) || callee.Pkg.Pkg.Path()[:len(core.ModPath)] != core.ModPath {
						continue
					}
					args := ci.Common().Args
					for i, a := range args {
						if i >= len(callee.Params) {
							break
						}
						if !types.Identical(a.Type().Underlying(), types.Typ[types.String]) {
							continue
						}
						if !t.taintedParams[callee.Params[i]] && t.tainted(a) {
							t.taintedParams[callee.Params[i]] = true
							changed = true
						}
					}
				}
			}
		}
	}
	return t
}

const (
	oWRONLY = 0x1
	oRDWR   = 0x2
	oAPPEND = 0x400
	oCREATE = 0x40
	oTRUNC  = 0x200
)

func runC16(c *core.Ctx) {
	c.Explanation = "Structural necessary conditions of `fmt -w` atomicity, decided on the SSA of the whole module: (1) who-may-write: no os.OpenFile with a writing flag, os.Create, os.WriteFile, os.Truncate or ioutil.WriteFile is applied to a path whose backward slice (inter-procedural through string parameters) contains resolver.VCL.Name; (2) the only mutation of such a path is os.Rename(tmp, path) with tmp from os.CreateTemp, dominated by the nil-error edge of every write to tmp that can precede it, with at least one dominating write whose source is the formatter's result; (3) (*Formatter).Format can return nil, so every use of its result is dominated by a non-nil test. This decides the shape of the write path, not the bytes written. (fsatomic.onceread) the formatter's reader has at most one consumer on every path."
	c.NotCovered = []string{"what the kernel does on rename, power loss (no fsync demanded)", "that the temp file ends up with the right permissions", "equality of the bytes written with `falco fmt FILE` output beyond 'same formatter result value'"}
	c.Assumptions = []string{"the input file is named by resolver.VCL.Name (the only field the runner uses to reopen it)", "os.Rename within one directory is atomic"}
	prog := c.Prog
	funcs := prog.ModuleFuncs()
	taint := newInputPathTaint(prog, funcs)
	c.Extra("tainted_string_params", len(taint.taintedParams))

	writeSites := 0
	for _, fn := range funcs {
		c.Func(core.FnName(fn))
		for _, b := range fn.Blocks {
			for _, in := range b.Instrs {
				ci, ok := in.(ssa.CallInstruction)
				if !ok {
					continue
				}
				callee := ci.Common().StaticCallee()
				if callee == nil {
					continue
				}
				args := ci.Common().Args
				var pathArg ssa.Value
				what := ""
				switch {
				case core.CalleeIs(callee, "os", "OpenFile"):
					flag, isConst := core.ConstIntValue(args[1])
					if isConst && flag&(oWRONLY|oRDWR|oAPPEND|oCREATE|oTRUNC) == 0 {
						continue
					}
					pathArg, what = args[0], fmt.Sprintf("os.OpenFile(flag=%#x)", flag)
					if !isConst {
						what = "os.OpenFile(non-constant flag)"
					}
				case core.CalleeIs(callee, "os", "Create"):
					pathArg, what = args[0], "os.Create"
				case core.CalleeIs(callee, "os", "WriteFile"), core.CalleeIs(callee, "io/ioutil", "WriteFile"):
					pathArg, what = args[0], "WriteFile"
				case core.CalleeIs(callee, "os", "Truncate"):
					pathArg, what = args[0], "os.Truncate"
				case core.CalleeIs(callee, "os", "Remove"), core.CalleeIs(callee, "os", "RemoveAll"):
					pathArg, what = args[0], "os.Remove"
				case core.CalleeIs(callee, "os", "Rename"):
					c.CallSite()
					if taint.tainted(args[0]) && !fromCreateTemp(args[0]) {
						c.Report("fsatomic.nowrite", core.FnName(fn)+"|rename-away", in.Pos(), "os.Rename moves the input file away (its path is the rename source)")
					}
					if taint.tainted(args[1]) {
						checkRename(c, funcs, fn, in.(*ssa.Call), args[0], args[1])
					}
					continue
				default:
					continue
				}
				writeSites++
				c.CallSite()
				if what == "os.Remove" && fromCreateTemp(pathArg) {
					c.Discharge("fsatomic.nowrite", core.FnName(fn)+"|"+what, in.Pos(), "removes the temp file, not the input")
					continue
				}
				if taint.tainted(pathArg) {
					c.Report("fsatomic.nowrite", core.FnName(fn)+"|"+what, in.Pos(),
						fmt.Sprintf("%s on a path derived from the input VCL's name: an in-place write can stop half way (or truncates before the result exists)", what))
				} else {
					c.Discharge("fsatomic.nowrite", core.FnName(fn)+"|"+what, in.Pos(), "path does not derive from resolver.VCL.Name")
				}
			}
		}
	}
	c.Floor("fsatomic.nowrite", 1)

	// nil reader
	fmtFn := prog.SSAFunc("formatter", "Formatter.Format")
	if fmtFn == nil {
		c.MissingAnchor("fsatomic.nilreader", "formatter.(*Formatter).Format")
		return
	}
	mayNil := false
	for _, rs := range core.ReturnSites(fmtFn) {
		for _, res := range rs.Results {
			if core.IsNilConst(res) {
				mayNil = true
			}
		}
	}
	c.Extra("formatter_may_return_nil", mayNil)
	for _, fn := range funcs {
		for _, b := range fn.Blocks {
			for _, in := range b.Instrs {
				call, ok := in.(*ssa.Call)
				if !ok || call.Common().StaticCallee() != fmtFn {
					continue
				}
				c.CallSite()
				if !mayNil {
					c.Discharge("fsatomic.nilreader", core.FnName(fn), in.Pos(), "Format has no nil return")
					continue
				}
				bad := false
				for _, use := range valueUses(call) {
					if _, isCmp := use.(*ssa.BinOp); isCmp {
						continue
					}
					if _, isDbg := use.(*ssa.DebugRef); isDbg {
						continue
					}
					if !core.DominatedByNil(call, use.Block(), false) {
						bad = true
						c.Report("fsatomic.nilreader", core.FnName(fn)+"|use-of-Format-result", use.Pos(),
							"the result of (*Formatter).Format is used without a dominating non-nil test, but Format returns nil for any non-declaration statement (statement-only snippet) — with -w the file is already damaged or the process crashes")
						break
					}
				}
				if !bad {
					c.Discharge("fsatomic.nilreader", core.FnName(fn), in.Pos(), "every use dominated by a non-nil test")
				}
				// the result is a reader: whoever is handed it first drains it. On every path at most one call may take
				// it, otherwise what reaches the file is what the first reader left over - nothing
				takes := func(i2 ssa.Instruction) bool {
					ci, isCall := i2.(ssa.CallInstruction)
					if !isCall || i2 == ssa.Instruction(call) {
						return false
					}
					used := false
					for _, u := range valueUses(call) {
						if u == i2 {
							used = true
						}
					}
					if !used {
						return false
					}
					// as the receiver only the draining methods count (Len, String and the like leave the content)
					if ci.Common().IsInvoke() {
						switch ci.Common().Method.Name() {
						case "Read", "WriteTo", "ReadByte", "ReadRune", "ReadString", "ReadBytes", "Next":
							return true
						}
						for _, a := range ci.Common().Args {
							for _, u := range valueUses(call) {
								if vu, isV := u.(ssa.Value); isV && vu == a {
									return true
								}
							}
						}
						return false
					}
					return true
				}
				in2 := map[*ssa.BasicBlock]int{}
				var order []*ssa.BasicBlock
				order = append(order, fn.Blocks...)
				max, maxPos := 0, call.Pos()
				for changed := true; changed; {
					changed = false
					for _, blk := range order {
						n := in2[blk]
						for _, i2 := range blk.Instrs {
							if takes(i2) {
								n++
								if n > max {
									max, maxPos = n, i2.Pos()
								}
							}
						}
						if n > 2 {
							n = 2
						}
						for _, sc := range blk.Succs {
							if sc != blk && in2[sc] < n && !sc.Dominates(blk) {
								in2[sc] = n
								changed = true
							}
						}
					}
				}
				if max > 1 {
					c.Report("fsatomic.onceread", core.FnName(fn)+"|Format-result", maxPos, "the reader returned by (*Formatter).Format is handed to a second consumer on one path: the first one has drained it, so with -w the file is replaced by what is left - an empty file - and the run reports success")
				} else {
					c.Discharge("fsatomic.onceread", core.FnName(fn)+"|Format-result", call.Pos(), "at most one consumer of the formatter's reader on every path")
				}
			}
		}
	}
	c.Floor("fsatomic.nilreader", 1)
}

// valueUses returns the instructions using v, looking through phis and interface conversions.
func valueUses(v ssa.Value) []ssa.Instruction {
	var out []ssa.Instruction
	seen := map[ssa.Value]bool{}
	var walk func(x ssa.Value)
	walk = func(x ssa.Value) {
		if seen[x] {
			return
		}
		seen[x] = true
		refs := x.Referrers()
		if refs == nil {
			return
		}
		for _, r := range *refs {
			switch t := r.(type) {
			case *ssa.Phi:
				walk(t)
			case *ssa.MakeInterface:
				walk(t)
			case *ssa.ChangeInterface:
				walk(t)
			default:
				out = append(out, r)
			}
		}
	}
	walk(v)
	return out
}

func fromCreateTemp(v ssa.Value) bool {
	for x := range core.BackSlice(v) {
		if call, ok := x.(*ssa.Call); ok {
			if cal := call.Common().StaticCallee(); core.CalleeIs(cal, "os", "CreateTemp") || core.CalleeIs(cal, "io/ioutil", "TempFile") {
				return true
			}
		}
	}
	return false
}

func tempFileValue(v ssa.Value) *ssa.Call {
	for x := range core.BackSlice(v) {
		if call, ok := x.(*ssa.Call); ok {
			if cal := call.Common().StaticCallee(); core.CalleeIs(cal, "os", "CreateTemp") || core.CalleeIs(cal, "io/ioutil", "TempFile") {
				return call
			}
		}
	}
	return nil
}

func checkRename(c *core.Ctx, funcs []*ssa.Function, fn *ssa.Function, rename *ssa.Call, src, dst ssa.Value) {
	key := core.FnName(fn) + "|os.Rename"
	tmpCall := tempFileValue(src)
	if tmpCall == nil {
		c.Report("fsatomic.rename", key+"|src", rename.Pos(), "the file renamed over the input is not a fresh os.CreateTemp file")
		return
	}
	// all calls in fn that involve the temp *os.File and return an error
	fmtFn := c.Prog.SSAFunc("formatter", "Formatter.Format")
	dominatingWrite := false
	ok := true
	for _, b := range fn.Blocks {
		for _, in := range b.Instrs {
			call, isCall := in.(*ssa.Call)
			if !isCall || call == rename || call == tmpCall {
				continue
			}
			involves := false
			var ops []*ssa.Value
			for _, op := range call.Operands(ops) {
				if *op == nil {
					continue
				}
				if _, isIface := (*op).Type().Underlying().(*types.Interface); !isIface && !isOSFile((*op).Type()) && !isBufferedWriter((*op).Type()) {
					continue
				}
				for x := range core.BackSlice(*op) {
					if ex, isEx := x.(*ssa.Extract); isEx && ex.Tuple == ssa.Value(tmpCall) && isOSFile(ex.Type()) {
						involves = true
					}
				}
			}
			if !involves {
				continue
			}
			errs := core.ErrorResults(call)
			if !hasErrResult(call) {
				continue
			}
			if !core.Reaches(call.Block(), rename.Block()) {
				continue
			}
			name := "?"
			if cal := call.Common().StaticCallee(); cal != nil {
				name = cal.Name()
			}
			isClose := name == "Close"
			checked := false
			for _, e := range errs {
				if core.DominatedByNil(e, rename.Block(), true) {
					checked = true
				}
			}
			if isClose {
				if !checked {
					c.Info("%s: error of Close on the temp file is not tested before the rename (informational: the property's fault list is reported at write time)", c.Prog.Loc(call.Pos()))
				}
				continue
			}
			if !checked {
				ok = false
				c.Report("fsatomic.rename", key+"|unchecked:"+name, call.Pos(),
					fmt.Sprintf("the rename over the input file is not dominated by the success edge of %s on the temp file: a failed or short write would be renamed into place", name),
					"write: "+c.Prog.Loc(call.Pos()), "rename: "+c.Prog.Loc(rename.Pos()))
				continue
			}
			// does it copy the formatter's result?
			if fmtFn != nil {
				for _, a := range call.Common().Args {
					if core.DerivesFromCall(a, fmtFn, funcs, 3) {
						dominatingWrite = true
					}
				}
			}
		}
	}
	if !dominatingWrite {
		ok = false
		c.Report("fsatomic.rename", key+"|no-write", rename.Pos(), "no write of the formatter's result into the temp file has its success edge dominating the rename (rename before/without the copy)")
	}
	if ok {
		c.Discharge("fsatomic.rename", key, rename.Pos(), "tmp from os.CreateTemp; success edges of all preceding writes dominate; writes Format's result")
	}
}

func isOSFile(t types.Type) bool {
	return core.NamedTypePkgName(t) == "os.File"
}

func hasErrResult(call *ssa.Call) bool {
	res := call.Common().Signature().Results()
	for i := 0; i < res.Len(); i++ {
		if core.IsErrorType(res.At(i).Type()) {
			return true
		}
	}
	return false
}

// isBufferedWriter: a writer that wraps the temp file; the bytes only reach the file when its Flush succeeds.
func isBufferedWriter(t types.Type) bool {
	switch core.NamedTypePkgName(t) {
	case "bufio.Writer", "bufio.ReadWriter":
		return true
	}
	return false
}
