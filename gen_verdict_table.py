#!/usr/bin/env python3
"""Developer aid: rewrites the rows of the verdict table in DESIGN.md §0 from evidence/*.json and known_findings.json."""
import json, glob, re
def find(o, k):
    if isinstance(o, dict):
        if k in o: return o[k]
        for v in o.values():
            r = find(v, k)
            if r is not None: return r
    return None
kf = json.load(open('/verif/known_findings.json'))['findings']
rows = []
for i in range(1, 21):
    pid = 'C%02d' % i
    if pid == 'C14':
        rows.append('| C14 | not applicable | — | — | §5 |'); continue
    e = json.load(open('/verif/evidence/%s.json' % pid))
    ri = find(e, 'rule_instances') or {}
    ob = find(e, 'obligations')
    if isinstance(ob, dict): ob = ob.get('total')
    known = len([f for f in kf if f['property'] == pid and f['status'] == 'known'])
    fixed = len([f for f in kf if f['property'] == pid and f['status'] == 'fixed'])
    state = []
    state.append('%d known finding%s' % (known, '' if known == 1 else 's') if known else 'holds')
    if fixed: state.append('%d repair%s recorded' % (fixed, '' if fixed == 1 else 's'))
    rows.append('| %s | other | %s | %s | %s |' % (pid, ', '.join(sorted(ri)), ob, ', '.join(state)))
p = '/verif/DESIGN.md'
s = open(p).read()
m = re.search(r'(\|-----\|[^\n]*\n)((?:\| C\d\d [^\n]*\n)+)', s)
s = s[:m.start(2)] + '\n'.join(rows) + '\n' + s[m.end(2):]
open(p, 'w').write(s)
print(len(rows))
