package checks

import "sort"

func sortStrings(s []string) { sort.Strings(s) }
