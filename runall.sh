#!/bin/bash
# developer aid: run every claimed check (quick), print one line each, exit 1 if any fails
cd "$(dirname "$0")"; rc=0
for i in $(python3 -c "import json;print(' '.join(c['property_id'] for c in json.load(open('MANIFEST.json'))['checks']))"); do
  out=$(./run.sh $i ${1:-quick} 2>&1); r=$?
  echo "$out" | tail -1
  if [ $r -ne 0 ]; then rc=1; echo "$out" | grep "^  [a-z]" | head -5; fi
done
exit $rc
