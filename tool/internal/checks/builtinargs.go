package checks

import (
	"fmt"
	"go/constant"
	"go/token"
	"go/types"
	"strings"

	"fv/internal/core"

	"golang.org/x/tools/go/ssa"
)

// builtinArgTable: for the generated built-in functions F(ctx, args...), the declared argument type table
// F_ArgumentTypes and whether F_Validate checks `args[i].Type() != F_ArgumentTypes[i]` for every i.
type builtinArgTable struct {
	prog     *core.Program
	types    map[string][]string // function name prefix (Go identifier, e.g. "Accept_charset_lookup") -> kinds per index
	generic  map[string]bool     // Validate uses the generic loop over the table
	uniform  map[string]string   // Validate requires every argument to have this kind
	validate map[string]*ssa.Function
}

func newBuiltinArgTable(prog *core.Program) *builtinArgTable {
	t := &builtinArgTable{prog: prog, types: map[string][]string{}, generic: map[string]bool{}, uniform: map[string]string{}, validate: map[string]*ssa.Function{}}
	for _, rel := range []string{"interpreter/function/builtin", "tester/function"} {
		sp := prog.SSAPkg[rel]
		if sp == nil {
			continue
		}
		// tables from the package initialiser: slice literal of value.Type constants stored into *_ArgumentTypes
		if in := sp.Func("init"); in != nil {
			for _, b := range in.Blocks {
				for _, i := range b.Instrs {
					st, ok := i.(*ssa.Store)
					if !ok {
						continue
					}
					g, ok := st.Addr.(*ssa.Global)
					if !ok || !strings.HasSuffix(g.Name(), "_ArgumentTypes") {
						continue
					}
					sl, ok := st.Val.(*ssa.Slice)
					if !ok {
						continue
					}
					arr, ok := sl.X.(*ssa.Alloc)
					if !ok || arr.Referrers() == nil {
						continue
					}
					kinds := map[int64]string{}
					for _, r := range *arr.Referrers() {
						ia, ok := r.(*ssa.IndexAddr)
						if !ok || ia.Referrers() == nil {
							continue
						}
						idx, _ := core.ConstIntValue(ia.Index)
						for _, r2 := range *ia.Referrers() {
							if s2, ok := r2.(*ssa.Store); ok {
								if k, ok := s2.Val.(*ssa.Const); ok && k.Value != nil && k.Value.Kind() == constant.String {
									kinds[idx] = tagName(k)
								}
							}
						}
					}
					name := rel + "." + strings.TrimSuffix(g.Name(), "_ArgumentTypes")
					tableLens[g] = int64(len(kinds))
					lst := make([]string, len(kinds))
					for i := range lst {
						lst[i] = kinds[int64(i)]
					}
					t.types[name] = lst
				}
			}
		}
		for _, m := range sp.Members {
			fn, ok := m.(*ssa.Function)
			if !ok || !strings.HasSuffix(fn.Name(), "_Validate") {
				continue
			}
			name := rel + "." + strings.TrimSuffix(fn.Name(), "_Validate")
			t.validate[name] = fn
			argsParam := fn.Params[0]
			for _, p := range fn.Params {
				if _, isSlice := p.Type().Underlying().(*types.Slice); isSlice {
					argsParam = p
				}
			}
			// generic loop: a comparison of args[i].Type() with <name>_ArgumentTypes[i]
			for _, b := range fn.Blocks {
				for _, i := range b.Instrs {
					bo, ok := i.(*ssa.BinOp)
					if !ok || (bo.Op != token.NEQ && bo.Op != token.EQL) {
						continue
					}
					fromTable := false
					for x := range core.BackSlice(bo.Y) {
						if g, ok := x.(*ssa.Global); ok && strings.HasSuffix(g.Name(), "_ArgumentTypes") {
							fromTable = true
						}
					}
					fromArgs := false
					for x := range core.BackSlice(bo.X) {
						if p, ok := x.(*ssa.Parameter); ok && p == argsParam {
							fromArgs = true
						}
					}
					if fromTable && fromArgs {
						t.generic[name] = true
					}
					// uniform validator: args[i].Type() != <const kind> for a loop index i, failing edge returns an error
					if kc, ok := bo.Y.(*ssa.Const); ok && kc.Value != nil && tagName(kc) != "" && fromArgs && bo.Op == token.NEQ {
						nonConstIdx := false
						for x := range core.BackSlice(bo.X) {
							if ia, ok := x.(*ssa.IndexAddr); ok {
								if _, isK := core.ConstIntValue(ia.Index); !isK && ia.X == ssa.Value(argsParam) {
									nonConstIdx = true
								}
							}
						}
						if nonConstIdx && bo.Referrers() != nil {
							for _, r := range *bo.Referrers() {
								if iff, ok := r.(*ssa.If); ok && returnsErrorSoon(iff.Block().Succs[0]) {
									// the loop must range over all of args: its header compares the index with len(args)
									t.uniform[name] = tagName(kc)
								}
							}
						}
					}
				}
			}
		}
	}
	return t
}

// guards: inside built-in F, Unwrap[*value.<want>](args[k]) after `F_Validate(args)` returned nil, where the generic
// Validate loop compares every args[i].Type() with F_ArgumentTypes[i] and F_ArgumentTypes[k] == want.
func (t *builtinArgTable) guards(fn *ssa.Function, unwrap *ssa.Call, v ssa.Value, want string) bool {
	if fn.Pkg == nil {
		return false
	}
	rel := strings.TrimPrefix(fn.Pkg.Pkg.Path(), core.ModPath+"/")
	top := fn
	for top.Parent() != nil {
		top = top.Parent()
	}
	name := rel + "." + top.Name()
	val := t.validate[name]
	if val == nil {
		return false
	}
	if t.uniform[name] == want {
		// any element of args
		if ld, ok := v.(*ssa.UnOp); ok && ld.Op == token.MUL {
			if ia, ok := ld.X.(*ssa.IndexAddr); ok && len(top.Params) >= 2 && ia.X == ssa.Value(top.Params[len(top.Params)-1]) {
				for _, b := range top.Blocks {
					for _, in := range b.Instrs {
						if call, ok := in.(*ssa.Call); ok && call.Common().StaticCallee() == val && core.DominatedByNil(call, unwrap.Block(), true) {
							return true
						}
					}
				}
			}
		}
	}
	if !t.generic[name] {
		return false
	}
	// v must be args[k] with constant k
	ld, ok := v.(*ssa.UnOp)
	if !ok || ld.Op != token.MUL {
		return false
	}
	ia, ok := ld.X.(*ssa.IndexAddr)
	if !ok {
		return false
	}
	k, ok := core.ConstIntValue(ia.Index)
	if !ok || k < 0 || int(k) >= len(t.types[name]) || t.types[name][k] != want {
		return false
	}
	if len(top.Params) < 2 || ia.X != ssa.Value(top.Params[len(top.Params)-1]) {
		return false
	}
	// the Validate call's nil edge dominates
	for _, b := range top.Blocks {
		for _, in := range b.Instrs {
			call, ok := in.(*ssa.Call)
			if !ok || call.Common().StaticCallee() != val {
				continue
			}
			if core.DominatedByNil(call, unwrap.Block(), true) {
				return true
			}
		}
	}
	return false
}

// explicitCheck: F_Validate contains `args[k].Type() != <want>Type` (constant k) whose true edge returns an error, and
// the Validate call's nil edge dominates the Unwrap of args[k] in F.
func (t *builtinArgTable) explicitCheck(fn *ssa.Function, unwrap *ssa.Call, v ssa.Value, want string) bool {
	if fn.Pkg == nil {
		return false
	}
	rel := strings.TrimPrefix(fn.Pkg.Pkg.Path(), core.ModPath+"/")
	top := fn
	for top.Parent() != nil {
		top = top.Parent()
	}
	val := t.validate[rel+"."+top.Name()]
	if val == nil {
		return false
	}
	ld, ok := v.(*ssa.UnOp)
	if !ok || ld.Op != token.MUL {
		return false
	}
	ia, ok := ld.X.(*ssa.IndexAddr)
	if !ok || len(top.Params) < 2 || ia.X != ssa.Value(top.Params[len(top.Params)-1]) {
		return false
	}
	k, ok := core.ConstIntValue(ia.Index)
	if !ok {
		return false
	}
	// the check inside Validate
	found := false
	for _, b := range val.Blocks {
		iff, ok := b.Instrs[len(b.Instrs)-1].(*ssa.If)
		if !ok {
			continue
		}
		bo, ok := iff.Cond.(*ssa.BinOp)
		if !ok || (bo.Op != token.NEQ && bo.Op != token.EQL) {
			continue
		}
		kc, ok := bo.Y.(*ssa.Const)
		if !ok || kc.Value == nil || tagName(kc) != want {
			continue
		}
		tc, ok := bo.X.(*ssa.Call)
		if !ok || !tc.Common().IsInvoke() || tc.Common().Method.Name() != "Type" {
			continue
		}
		l2, ok := tc.Common().Value.(*ssa.UnOp)
		if !ok {
			continue
		}
		ia2, ok := l2.X.(*ssa.IndexAddr)
		if !ok || ia2.X != ssa.Value(val.Params[0]) {
			continue
		}
		k2, ok := core.ConstIntValue(ia2.Index)
		if !ok || k2 != k {
			continue
		}
		failEdge := 0
		if bo.Op == token.EQL {
			failEdge = 1
		}
		if returnsErrorSoon(b.Succs[failEdge]) {
			found = true
		}
	}
	if !found {
		return false
	}
	for _, b := range top.Blocks {
		for _, in := range b.Instrs {
			call, ok := in.(*ssa.Call)
			if !ok || call.Common().StaticCallee() != val {
				continue
			}
			if core.DominatedByNil(call, unwrap.Block(), true) {
				return true
			}
		}
	}
	return false
}

// acceptsArity: does F_Validate accept len(args) == n?  Branches whose condition is a comparison of len(args) with a
// constant are decided; at the first other condition the arity is considered accepted.
func (t *builtinArgTable) acceptsArity(val *ssa.Function, n int64) bool {
	var argsParam *ssa.Parameter
	for _, p := range val.Params {
		if _, isSlice := p.Type().Underlying().(*types.Slice); isSlice {
			argsParam = p
		}
	}
	if argsParam == nil {
		return true
	}
	b := val.Blocks[0]
	for steps := 0; steps < 64; steps++ {
		for _, in := range b.Instrs {
			if r, ok := in.(*ssa.Return); ok {
				for _, rs := range core.ReturnSites(val) {
					if rs.Ret == r {
						for _, v := range rs.Results {
							if core.IsErrorType(v.Type()) && !core.IsNilConst(v) {
								return false
							}
						}
					}
				}
				return true
			}
		}
		iff, ok := b.Instrs[len(b.Instrs)-1].(*ssa.If)
		if !ok {
			if len(b.Succs) == 1 {
				b = b.Succs[0]
				continue
			}
			return true
		}
		res, decided := lenCond(iff.Cond, argsParam, n)
		if !decided {
			return true
		}
		if res {
			b = b.Succs[0]
		} else {
			b = b.Succs[1]
		}
	}
	return true
}

// arityDead: block b is only reachable when len(args) == K for a K that F_Validate rejects.
func (t *builtinArgTable) arityDead(fn *ssa.Function, b *ssa.BasicBlock) bool {
	if fn.Pkg == nil {
		return false
	}
	rel := strings.TrimPrefix(fn.Pkg.Pkg.Path(), core.ModPath+"/")
	top := fn
	for top.Parent() != nil {
		top = top.Parent()
	}
	val := t.validate[rel+"."+top.Name()]
	if val == nil || len(top.Params) < 1 {
		return false
	}
	args := top.Params[len(top.Params)-1]
	for _, blk := range top.Blocks {
		iff, ok := blk.Instrs[len(blk.Instrs)-1].(*ssa.If)
		if !ok {
			continue
		}
		bo, eq, ok := core.EqCond(iff.Cond)
		if !ok {
			continue
		}
		call, ok := bo.X.(*ssa.Call)
		if !ok {
			continue
		}
		bi, ok := call.Common().Value.(*ssa.Builtin)
		if !ok || bi.Name() != "len" || call.Common().Args[0] != ssa.Value(args) {
			continue
		}
		k, ok := core.ConstIntValue(bo.Y)
		if !ok || !core.EdgeDominates(blk, eq, b) {
			continue
		}
		// Validate must have been called and passed
		passed := false
		for _, b2 := range top.Blocks {
			for _, in := range b2.Instrs {
				if c2, ok := in.(*ssa.Call); ok && c2.Common().StaticCallee() == val && core.DominatedByNil(c2, b, true) {
					passed = true
				}
			}
		}
		if passed && !t.acceptsArity(val, k) {
			return true
		}
	}
	return false
}

// forwarded: fn is a helper whose variadic/slice parameter is the validated args of every caller (h(args...)); the
// element args[k] is then guarded in the callers' context.
func (t *builtinArgTable) forwarded(all []*ssa.Function, fn *ssa.Function, v ssa.Value, want string) bool {
	ld, ok := v.(*ssa.UnOp)
	if !ok || ld.Op != token.MUL {
		return false
	}
	ia, ok := ld.X.(*ssa.IndexAddr)
	if !ok {
		return false
	}
	p, ok := ia.X.(*ssa.Parameter)
	if !ok {
		return false
	}
	idx := -1
	for i, q := range fn.Params {
		if q == p {
			idx = i
		}
	}
	callers := core.CallersOf(fn, all)
	if idx < 0 || len(callers) == 0 {
		return false
	}
	for _, cs := range callers {
		call, ok := cs.(*ssa.Call)
		if !ok || idx >= len(cs.Common().Args) {
			return false
		}
		cf := cs.Parent()
		top := cf
		for top.Parent() != nil {
			top = top.Parent()
		}
		if len(top.Params) == 0 || cs.Common().Args[idx] != ssa.Value(top.Params[len(top.Params)-1]) {
			return false
		}
		// a synthetic element access in the caller's context: reuse the guards with an equivalent value is not possible,
		// so check the table facts directly
		rel := strings.TrimPrefix(cf.Pkg.Pkg.Path(), core.ModPath+"/")
		name := rel + "." + top.Name()
		val := t.validate[name]
		if val == nil {
			return false
		}
		passed := false
		for _, b2 := range top.Blocks {
			for _, in := range b2.Instrs {
				if c2, ok := in.(*ssa.Call); ok && c2.Common().StaticCallee() == val && core.DominatedByNil(c2, call.Block(), true) {
					passed = true
				}
			}
		}
		if !passed {
			return false
		}
		k, isK := core.ConstIntValue(ia.Index)
		okIdx := false
		if t.uniform[name] == want {
			okIdx = true
		}
		if isK && t.generic[name] && int(k) < len(t.types[name]) && t.types[name][k] == want {
			okIdx = true
		}
		if isK && t.validateChecksIndex(val, k, want) {
			okIdx = true
		}
		if !okIdx {
			return false
		}
	}
	return true
}

// validateChecksIndex: Validate contains `args[k].Type() != <want>` with a failing edge that returns an error.
func (t *builtinArgTable) validateChecksIndex(val *ssa.Function, k int64, want string) bool {
	var argsParam *ssa.Parameter
	for _, p := range val.Params {
		if _, isSlice := p.Type().Underlying().(*types.Slice); isSlice {
			argsParam = p
		}
	}
	for _, b := range val.Blocks {
		iff, ok := b.Instrs[len(b.Instrs)-1].(*ssa.If)
		if !ok {
			continue
		}
		bo, ok := iff.Cond.(*ssa.BinOp)
		if !ok || (bo.Op != token.NEQ && bo.Op != token.EQL) {
			continue
		}
		kc, ok := bo.Y.(*ssa.Const)
		if !ok || kc.Value == nil || tagName(kc) != want {
			continue
		}
		tc, ok := bo.X.(*ssa.Call)
		if !ok || !tc.Common().IsInvoke() || tc.Common().Method.Name() != "Type" {
			continue
		}
		l2, ok := tc.Common().Value.(*ssa.UnOp)
		if !ok {
			continue
		}
		ia2, ok := l2.X.(*ssa.IndexAddr)
		if !ok || ia2.X != ssa.Value(argsParam) {
			continue
		}
		if k2, ok := core.ConstIntValue(ia2.Index); !ok || k2 != k {
			continue
		}
		failEdge := 0
		if bo.Op == token.EQL {
			failEdge = 1
		}
		if returnsErrorSoon(b.Succs[failEdge]) {
			return true
		}
	}
	return false
}

var tableLens = map[*ssa.Global]int64{}

// constOrTableLen: a constant, or len(<X>_ArgumentTypes) whose literal length is known.
func constOrTableLen(v ssa.Value) (int64, bool) {
	if k, ok := core.ConstIntValue(v); ok {
		return k, true
	}
	if call, ok := v.(*ssa.Call); ok {
		if bi, ok := call.Common().Value.(*ssa.Builtin); ok && bi.Name() == "len" {
			if ld, ok := call.Common().Args[0].(*ssa.UnOp); ok {
				if g, ok := ld.X.(*ssa.Global); ok {
					if n, ok := tableLens[g]; ok {
						return n, true
					}
				}
			}
		}
	}
	return 0, false
}

// lenCond: if cond is a comparison of len(args) with a constant, evaluate it for len(args) == n.
func lenCond(cond ssa.Value, args ssa.Value, n int64) (res bool, ok bool) {
	switch t := cond.(type) {
	case *ssa.UnOp:
		if t.Op == token.NOT {
			r, ok := lenCond(t.X, args, n)
			return !r, ok
		}
		return false, false
	case *ssa.BinOp:
		isLen := func(v ssa.Value) bool {
			call, ok := v.(*ssa.Call)
			if !ok {
				return false
			}
			bi, ok := call.Common().Value.(*ssa.Builtin)
			return ok && bi.Name() == "len" && call.Common().Args[0] == args
		}
		var x, y int64
		if k, isK := constOrTableLen(t.Y); isK && isLen(t.X) {
			x, y = n, k
		} else if k, isK := constOrTableLen(t.X); isK && isLen(t.Y) {
			x, y = k, n
		} else {
			return false, false
		}
		switch t.Op {
		case token.LSS:
			return x < y, true
		case token.LEQ:
			return x <= y, true
		case token.GTR:
			return x > y, true
		case token.GEQ:
			return x >= y, true
		case token.EQL:
			return x == y, true
		case token.NEQ:
			return x != y, true
		}
	}
	return false, false
}

// admittedArities: the arities n in 0..16 that F_Validate accepts and that are consistent with every len(args)
// comparison whose edge dominates block b of F.
func (t *builtinArgTable) admittedArities(top *ssa.Function, val *ssa.Function, args ssa.Value, b *ssa.BasicBlock) []int64 {
	var out []int64
	for n := int64(0); n <= 16; n++ {
		if val != nil && !t.acceptsArity(val, n) {
			continue
		}
		ok := true
		for _, blk := range top.Blocks {
			iff, isIf := blk.Instrs[len(blk.Instrs)-1].(*ssa.If)
			if !isIf {
				continue
			}
			res, decided := lenCond(iff.Cond, args, n)
			if !decided {
				continue
			}
			if core.EdgeDominates(blk, 0, b) && !res {
				ok = false
			}
			if core.EdgeDominates(blk, 1, b) && res {
				ok = false
			}
		}
		if ok {
			out = append(out, n)
		}
	}
	return out
}

// checkArgIndices (sim.args): every args[k] with constant k in a built-in F lies inside every arity that can reach it;
// inside F_Validate a loop over the declared type table may index args only if the smallest accepted arity covers the table.
func (t *builtinArgTable) checkArgIndices(c *core.Ctx) {
	for name, val := range t.validate {
		rel := name[:strings.LastIndex(name, ".")]
		sp := t.prog.SSAPkg[rel]
		if sp == nil {
			continue
		}
		top := sp.Func(name[strings.LastIndex(name, ".")+1:])
		if top == nil || len(top.Params) == 0 {
			continue
		}
		args := ssa.Value(top.Params[len(top.Params)-1])
		if _, isSlice := args.Type().Underlying().(*types.Slice); !isSlice {
			continue
		}
		// Validate must dominate every element access
		var valCall *ssa.Call
		for _, b := range top.Blocks {
			for _, in := range b.Instrs {
				if call, ok := in.(*ssa.Call); ok && call.Common().StaticCallee() == val {
					valCall = call
				}
			}
		}
		fns := append([]*ssa.Function{top}, top.AnonFuncs...)
		for _, fn := range fns {
			for _, b := range fn.Blocks {
				for _, in := range b.Instrs {
					ia, ok := in.(*ssa.IndexAddr)
					if !ok || ia.X != args {
						continue
					}
					k, isK := core.ConstIntValue(ia.Index)
					if !isK {
						continue
					}
					key := fmt.Sprintf("%s|args[%d]", core.FnName(top), k)
					if fn != top {
						c.Instance("sim.args")
						continue
					}
					if valCall == nil || !core.DominatedByNil(valCall, b, true) {
						c.Report("sim.args", key+"|unvalidated", in.Pos(), fmt.Sprintf("args[%d] is read in %s on a path where %s has not passed", k, core.FnName(top), val.Name()))
						continue
					}
					adm := t.admittedArities(top, val, args, b)
					bad := int64(-1)
					for _, n := range adm {
						if k >= n {
							bad = n
						}
					}
					if bad >= 0 {
						c.Report("sim.args", key, in.Pos(), fmt.Sprintf("args[%d] is read in %s on a path that %d argument(s) can reach (the validator accepts that arity): index out of range crashes the process", k, core.FnName(top), bad))
					} else {
						c.Discharge("sim.args", key, in.Pos(), fmt.Sprintf("index inside every admitted arity %v", adm))
					}
				}
			}
		}
		// inside Validate: args[i] with i ranging over the type table
		var vargs ssa.Value
		for _, p := range val.Params {
			if _, isSlice := p.Type().Underlying().(*types.Slice); isSlice {
				vargs = p
			}
		}
		minAr := int64(-1)
		for n := int64(0); n <= 16; n++ {
			if t.acceptsArity(val, n) {
				minAr = n
				break
			}
		}
		for _, b := range val.Blocks {
			for _, in := range b.Instrs {
				ia, ok := in.(*ssa.IndexAddr)
				if !ok || ia.X != vargs {
					continue
				}
				key := core.FnName(val) + "|args[i]"
				if k, isK := core.ConstIntValue(ia.Index); isK {
					adm := t.admittedAritiesIn(val, vargs, b)
					bad := int64(-1)
					for _, n := range adm {
						if k >= n {
							bad = n
						}
					}
					if bad >= 0 {
						c.Report("sim.args", fmt.Sprintf("%s|args[%d]", core.FnName(val), k), in.Pos(), fmt.Sprintf("%s reads args[%d] on a path that %d argument(s) can reach", val.Name(), k, bad))
					} else {
						c.Discharge("sim.args", fmt.Sprintf("%s|args[%d]", core.FnName(val), k), in.Pos(), "guarded by the arity tests")
					}
					continue
				}
				// non-constant index: which collection does the loop range over?
				overTable := int64(-1)
				for _, l := range naturalLoops(val) {
					if !l.body[b] {
						continue
					}
					for _, hi := range l.header.Instrs {
						bo, ok := hi.(*ssa.BinOp)
						if !ok || bo.Op != token.LSS {
							continue
						}
						for x := range core.BackSlice(bo.Y) {
							if g, ok := x.(*ssa.Global); ok && strings.HasSuffix(g.Name(), "_ArgumentTypes") {
								overTable = int64(len(t.types[rel+"."+strings.TrimSuffix(g.Name(), "_ArgumentTypes")]))
							}
						}
					}
				}
				if overTable < 0 {
					c.Discharge("sim.args", key, in.Pos(), "loop index ranges over args itself")
					continue
				}
				if minAr >= overTable {
					c.Discharge("sim.args", key, in.Pos(), fmt.Sprintf("loop over the %d declared types; the smallest accepted arity is %d", overTable, minAr))
				} else {
					c.Report("sim.args", key, in.Pos(), fmt.Sprintf("%s indexes args with a loop over its %d declared argument types but accepts %d argument(s): index out of range crashes the process", val.Name(), overTable, minAr))
				}
			}
		}
	}
	c.Floor("sim.args", 300)
}

// admittedAritiesIn: like admittedArities, inside the validator itself (all arities 0..16 that reach block b).
func (t *builtinArgTable) admittedAritiesIn(val *ssa.Function, args ssa.Value, b *ssa.BasicBlock) []int64 {
	return t.admittedArities(val, nil, args, b)
}
