package checks

import (
	"fmt"
	"go/token"
	"go/types"
	"sort"
	"strings"

	"fv/internal/core"

	"golang.org/x/tools/go/ssa"
)

// E2 optnil — optional-field nil discipline.
//
// Optional set: pointer/interface typed fields of ast node kinds that the parser can leave nil:
// some function of package parser allocates the node and returns it with a nil error along a path
// that stores nothing into the field (forward must-store dataflow over the SSA CFG).
// Obligation: in a consumer, a load of an optional field that is dereferenced (method invoked on it,
// field selected through it, or passed to a function that dereferences that parameter on every path)
// must be dominated by the non-nil edge of a nil test of the same field of the same base value
// (or of the loaded value itself), or sit in a typed arm of a type switch.

type optNil struct {
	prog       *core.Program
	u          *astUniverse
	optional   map[*types.Var]string // field -> where the parser leaves it nil
	deref      map[*ssa.Function]map[int]bool
	containers map[*types.Var]map[*types.Var]bool
	allFuncs   []*ssa.Function
}

var optNilCache *optNil

func getOptNil(prog *core.Program, u *astUniverse) *optNil {
	if optNilCache != nil && optNilCache.prog == prog {
		return optNilCache
	}
	o := &optNil{prog: prog, u: u, optional: map[*types.Var]string{}, deref: map[*ssa.Function]map[int]bool{}}
	o.computeOptional()
	o.computeDerefSummaries()
	o.computeNilSwitchSummaries()
	o.computeDerefSummaries()
	optNilCache = o
	return o
}

func nilable(t types.Type) bool {
	switch types.Unalias(t).Underlying().(type) {
	case *types.Pointer, *types.Interface:
		return true
	}
	return false
}

func (o *optNil) computeOptional() {
	for _, fn := range o.prog.ModuleFuncs("parser") {
		if o.prog.IsCanary(fn.Pos()) {
			continue
		}
		for _, b := range fn.Blocks {
			for _, in := range b.Instrs {
				al, ok := in.(*ssa.Alloc)
				if !ok {
					continue
				}
				tn := core.NamedTypePkgName(al.Type())
				if !strings.HasPrefix(tn, astPkgPath+".") {
					continue
				}
				n := strings.TrimPrefix(tn, astPkgPath+".")
				if o.u.nodes[n] == nil {
					continue
				}
				// is the node returned (possibly via interface) with a nil error?
				var rets []*ssa.Return
				for _, rs := range core.ReturnSites(fn) {
					returnsIt := false
					for _, r := range rs.Results {
						if r == ssa.Value(al) {
							returnsIt = true
						}
						if mi, ok := r.(*ssa.MakeInterface); ok && mi.X == ssa.Value(al) {
							returnsIt = true
						}
					}
					if !returnsIt {
						continue
					}
					errNonNil := false
					for _, r := range rs.Results {
						if core.IsErrorType(r.Type()) && !core.IsNilConst(r) {
							errNonNil = true
						}
					}
					if !errNonNil {
						rets = append(rets, rs.Ret)
					}
				}
				if len(rets) == 0 {
					// nodes appended to a parent / stored elsewhere: treat every exit of the function as a completion point
					continue
				}
				for _, f := range o.u.fields[n] {
					if !nilable(f.Type()) {
						continue
					}
					if _, done := o.optional[f]; done {
						continue
					}
					// blocks that store into al.f a value that is not the nil constant
					stores := map[*ssa.BasicBlock]bool{}
					if refs := al.Referrers(); refs != nil {
						for _, r := range *refs {
							fa, ok := r.(*ssa.FieldAddr)
							if !ok || core.FieldOf(fa) != f || fa.Referrers() == nil {
								continue
							}
							for _, r2 := range *fa.Referrers() {
								if st, ok := r2.(*ssa.Store); ok && st.Addr == ssa.Value(fa) && !core.IsNilConst(st.Val) {
									stores[st.Block()] = true
								}
							}
						}
					}
					if mustPassThrough(fn, stores, rets) {
						continue
					}
					o.optional[f] = fmt.Sprintf("%s can return *ast.%s without assigning %s", core.FnName(fn), n, f.Name())
				}
			}
		}
	}
}

// mustPassThrough: does every path from entry to each of the return blocks pass through a block in `events`?
func mustPassThrough(fn *ssa.Function, events map[*ssa.BasicBlock]bool, rets []*ssa.Return) bool {
	// reachability from entry avoiding event blocks
	seen := map[*ssa.BasicBlock]bool{}
	var work []*ssa.BasicBlock
	if !events[fn.Blocks[0]] {
		work = append(work, fn.Blocks[0])
	}
	for len(work) > 0 {
		b := work[len(work)-1]
		work = work[:len(work)-1]
		if seen[b] {
			continue
		}
		seen[b] = true
		for _, s := range b.Succs {
			if !events[s] {
				work = append(work, s)
			}
		}
	}
	for _, r := range rets {
		if seen[r.Block()] {
			return false
		}
	}
	return true
}

// derefUses returns the instructions that dereference v (nil would panic).
func derefUses(o *optNil, v ssa.Value) []ssa.Instruction {
	var out []ssa.Instruction
	seen := map[ssa.Value]bool{}
	var walk func(x ssa.Value)
	walk = func(x ssa.Value) {
		if seen[x] {
			return
		}
		seen[x] = true
		refs := x.Referrers()
		if refs == nil {
			return
		}
		for _, r := range *refs {
			switch t := r.(type) {
			case *ssa.FieldAddr:
				if t.X == x {
					out = append(out, t)
				}
			case *ssa.Field:
			case *ssa.UnOp:
				if t.Op == token.MUL && t.X == x {
					out = append(out, t)
				}
			case *ssa.MakeInterface:
				// a typed nil pointer wrapped in an interface: method calls on it reach the method with a nil receiver
				walk(t)
			case *ssa.ChangeInterface:
				walk(t)
			case ssa.CallInstruction:
				cc := t.Common()
				if cc.IsInvoke() && cc.Value == x {
					out = append(out, t)
					continue
				}
				cal := cc.StaticCallee()
				if cal == nil {
					continue
				}
				for i, a := range cc.Args {
					if a == x && o != nil && o.deref[cal][i] {
						out = append(out, t)
					}
				}
			}
		}
	}
	walk(v)
	return out
}

func (o *optNil) computeDerefSummaries() {
	funcs := o.prog.ModuleFuncs()
	cds := map[*ssa.Function]*core.CtrlDeps{}
	for changed := true; changed; {
		changed = false
		for _, fn := range funcs {
			if len(fn.Params) == 0 {
				continue
			}
			for i, p := range fn.Params {
				if o.deref[fn][i] || !nilable(p.Type()) {
					continue
				}
				for _, use := range derefUses(o, p) {
					// guarded by a nil test of the parameter?
					if core.DominatedByNil(p, use.Block(), false) {
						continue
					}
					// executed on every path from entry?
					if cds[fn] == nil {
						cds[fn] = core.NewCtrlDeps(fn)
					}
					if use.Block() == fn.Blocks[0] || cds[fn].PostDominates(use.Block(), fn.Blocks[0]) {
						if o.deref[fn] == nil {
							o.deref[fn] = map[int]bool{}
						}
						o.deref[fn][i] = true
						changed = true
						break
					}
				}
			}
		}
	}
}

// computeNilSwitchSummaries: a nil interface handed to a function that type-switches on it fails every case and lands
// in the arm behind all of them. When the function is walked with the parameter known to be nil - every comma-ok type
// assertion of it fails, every nil test of it is decided, every other branch is not looked at: only blocks reached
// whatever those decide count - and a method call on the parameter (or a hand-over to a callee with the same summary)
// is reached on every such walk, nil crashes there.
func (o *optNil) computeNilSwitchSummaries() {
	funcs := o.prog.ModuleFuncs()
	for changed := true; changed; {
		changed = false
		for _, fn := range funcs {
			for i, p := range fn.Params {
				if o.deref[fn][i] {
					continue
				}
				if _, isIface := p.Type().Underlying().(*types.Interface); !isIface {
					continue
				}
				// must-reach set under p == nil: follow decided branches; at an undecided branch stop (nothing beyond it
				// is certain) unless both successors are the same
				b := fn.Blocks[0]
				seen := map[*ssa.BasicBlock]bool{}
				crash := false
				for b != nil && !seen[b] && !crash {
					seen[b] = true
					for _, in := range b.Instrs {
						if ci, ok := in.(ssa.CallInstruction); ok {
							cc := ci.Common()
							if cc.IsInvoke() && cc.Value == ssa.Value(p) {
								crash = true
							}
							if cal := cc.StaticCallee(); cal != nil {
								for j, a := range cc.Args {
									if a == ssa.Value(p) && o.deref[cal][j] {
										crash = true
									}
								}
							}
						}
						if ta, ok := in.(*ssa.TypeAssert); ok && ta.X == ssa.Value(p) && !ta.CommaOk {
							crash = true
						}
					}
					var next *ssa.BasicBlock
					switch t := b.Instrs[len(b.Instrs)-1].(type) {
					case *ssa.Jump:
						next = b.Succs[0]
					case *ssa.If:
						// comma-ok assertion of p: fails
						if ex, ok := t.Cond.(*ssa.Extract); ok && ex.Index == 1 {
							if ta, ok := ex.Tuple.(*ssa.TypeAssert); ok && ta.X == ssa.Value(p) {
								next = b.Succs[1]
							}
						}
						if bo, eq, ok := core.EqCond(t.Cond); ok && next == nil {
							if (bo.X == ssa.Value(p) && core.IsNilConst(bo.Y)) || (bo.Y == ssa.Value(p) && core.IsNilConst(bo.X)) {
								next = b.Succs[eq]
							}
						}
					}
					b = next
				}
				if crash {
					if o.deref[fn] == nil {
						o.deref[fn] = map[int]bool{}
					}
					o.deref[fn][i] = true
					changed = true
				}
			}
		}
	}
}

// guardedNonNil: is block b only reachable after a non-nil test of (base.field) or of v itself?
func guardedNonNil(fn *ssa.Function, load *ssa.UnOp, b *ssa.BasicBlock) bool {
	if core.DominatedByNil(load, b, false) {
		return true
	}
	fa, ok := load.X.(*ssa.FieldAddr)
	if !ok {
		return false
	}
	f := core.FieldOf(fa)
	// store forwarding: the same field of the same base was just assigned a value known to be non-nil
	for _, in := range load.Block().Instrs {
		if in == ssa.Instruction(load) {
			break
		}
		if st, ok := in.(*ssa.Store); ok {
			if fa2, ok := st.Addr.(*ssa.FieldAddr); ok && core.FieldOf(fa2) == f && sameBase(fa2.X, fa.X) {
				if _, isAlloc := st.Val.(*ssa.Alloc); isAlloc || core.DominatedByNil(st.Val, load.Block(), false) {
					return true
				}
			}
		}
	}
	for _, blk := range fn.Blocks {
		for _, in := range blk.Instrs {
			fa2, ok := in.(*ssa.FieldAddr)
			if !ok || fa2 == fa || core.FieldOf(fa2) != f || !sameBase(fa2.X, fa.X) || fa2.Referrers() == nil {
				continue
			}
			for _, r := range *fa2.Referrers() {
				if ld, ok := r.(*ssa.UnOp); ok && ld.Op == token.MUL {
					if core.DominatedByNil(ld, b, false) {
						return true
					}
				}
			}
		}
	}
	return false
}

func sameBase(a, b ssa.Value) bool {
	if a == b {
		return true
	}
	// loads of the same spilled parameter cell / same field chain
	la, ok1 := a.(*ssa.UnOp)
	lb, ok2 := b.(*ssa.UnOp)
	if ok1 && ok2 && la.Op == token.MUL && lb.Op == token.MUL {
		if la.X == lb.X {
			return true
		}
		fa, ok1 := la.X.(*ssa.FieldAddr)
		fb, ok2 := lb.X.(*ssa.FieldAddr)
		if ok1 && ok2 && fa.Field == fb.Field && sameBase(fa.X, fb.X) {
			return true
		}
	}
	ta, ok1 := a.(*ssa.TypeAssert)
	tb, ok2 := b.(*ssa.TypeAssert)
	if ok1 && ok2 && ta.X == tb.X && types.Identical(ta.AssertedType, tb.AssertedType) {
		return true
	}
	return false
}

// checkOptNil applies the rule to the given consumer functions.
func checkOptNil(c *core.Ctx, rule string, u *astUniverse, funcs []*ssa.Function) {
	checkOptNilSinks(c, rule, u, funcs, nil)
}

// checkOptNilSinks: as checkOptNil; additionally a static call of a function accepted by extraSink with the
// loaded optional value as an argument counts as a use that needs the non-nil guard.
func checkOptNilSinks(c *core.Ctx, rule string, u *astUniverse, funcs []*ssa.Function, extraSink func(*ssa.Function) bool) {
	o := getOptNil(c.Prog, u)
	var optNames []string
	for f, why := range o.optional {
		optNames = append(optNames, u.fieldOwner[f]+"."+f.Name()+": "+why)
	}
	sort.Strings(optNames)
	c.Extra("optional_fields", optNames)
	if len(o.optional) < 8 {
		c.Fatal("optnil: only %d optional fields derived from the parser (expected >= 8): the must-assign analysis has gone blind", len(o.optional))
	}
	for _, fn := range funcs {
		for _, b := range fn.Blocks {
			for _, in := range b.Instrs {
				ld, ok := in.(*ssa.UnOp)
				if !ok || ld.Op != token.MUL {
					continue
				}
				fa, ok := ld.X.(*ssa.FieldAddr)
				if !ok {
					continue
				}
				f := core.FieldOf(fa)
				if _, opt := o.optional[f]; !opt {
					continue
				}
				key := fmt.Sprintf("%s|%s.%s", core.FnName(fn), u.fieldOwner[f], f.Name())
				uses := derefUses(o, ld)
				if extraSink != nil {
					for _, r := range valueUses(ld) {
						if ci, ok := r.(ssa.CallInstruction); ok {
							if cal := ci.Common().StaticCallee(); cal != nil && extraSink(cal) {
								uses = append(uses, r)
							}
						}
					}
				}
				if len(uses) == 0 {
					continue
				}
				if o.fromGuardedContainer(fn, fa.X, f, 2) {
					c.Discharge(rule, key, ld.Pos(), "the node comes from a container that only ever receives nodes whose "+f.Name()+" was tested non-nil (guarded container)")
					continue
				}
				if why, ok := optNilCorrelations[core.FnName(fn)+"|"+u.fieldOwner[f]+"."+f.Name()]; ok {
					c.Discharge(rule, key, ld.Pos(), "named correlation: "+why)
					continue
				}
				bad := false
				for _, use := range uses {
					if guardedNonNil(fn, ld, use.Block()) {
						continue
					}
					if originRefined(u, f, fa) {
						continue
					}
					if o.guardedAtCallSites(fn, fa, f) {
						continue
					}
					bad = true
					c.Report(rule, key, use.Pos(), fmt.Sprintf("%s.%s can be nil (%s) but is dereferenced here without a dominating non-nil test", u.fieldOwner[f], f.Name(), o.optional[f]),
						"load: "+c.Prog.Loc(ld.Pos()), "use: "+describeUse(use))
					break
				}
				if !bad {
					c.Discharge(rule, key, ld.Pos(), "every dereferencing use dominated by a non-nil test")
				}
			}
		}
	}
}

func describeUse(in ssa.Instruction) string {
	if ci, ok := in.(ssa.CallInstruction); ok {
		cc := ci.Common()
		if cc.IsInvoke() {
			return "method call ." + cc.Method.Name() + "()"
		}
		if cal := cc.StaticCallee(); cal != nil {
			return "passed to " + core.FnName(cal) + " which dereferences it on every path"
		}
	}
	return in.String()
}

// originRefined: InfixExpression.Left is nil only for the node ParseCaseStatement builds for `case X:`;
// the obligation attaches to CaseStatement.Test.Left, not to every infix expression.
func originRefined(u *astUniverse, f *types.Var, fa *ssa.FieldAddr) bool {
	if u.fieldOwner[f] != "InfixExpression" || f.Name() != "Left" {
		return false
	}
	// base derives from a load of CaseStatement.Test ?
	for x := range core.BackSlice(fa.X) {
		if g := core.FieldOf(x); g != nil && u.fieldOwner[g] == "CaseStatement" && g.Name() == "Test" {
			return false
		}
	}
	return true
}

// Named correlations (one reason each): the field is non-nil whenever the code reaches the use, for a reason that is a
// relation between two values rather than a dominating nil test.
var optNilCorrelations = map[string]string{
	"interpreter.(*Interpreter).ProcessFunctionSubroutine|SubroutineDeclaration.ReturnType": "every caller passes a node taken from SubroutineFunctions / MockedFunctioncalSubroutines (guarded containers: insertions are dominated by ReturnType != nil); testing.call_subroutine passes the result of resolveSubroutine only when its `functional` flag is true, which is returned exactly with those two containers",
	"interpreter.(*Interpreter).ProcessCaseStatement|CaseStatement.Test":                    "Cases[offset].Test is nil exactly for the default case, and ParseSwitchStatement sets stmt.Default to that index (one default at most); the use is on the `stmt.Default != offset` branch",
}

// guardedContainers: map-typed struct fields all of whose insertions store a node whose field f was tested non-nil.
func (o *optNil) guardedContainers(f *types.Var) map[*types.Var]bool {
	if o.containers == nil {
		o.containers = map[*types.Var]map[*types.Var]bool{}
	}
	if m, ok := o.containers[f]; ok {
		return m
	}
	good := map[*types.Var]bool{}
	bad := map[*types.Var]bool{}
	for _, fn := range o.prog.ModuleFuncs() {
		for _, b := range fn.Blocks {
			for _, in := range b.Instrs {
				mu, ok := in.(*ssa.MapUpdate)
				if !ok {
					continue
				}
				ld, ok := mu.Map.(*ssa.UnOp)
				if !ok {
					continue
				}
				cfa, ok := ld.X.(*ssa.FieldAddr)
				if !ok || core.FieldOf(cfa) == nil {
					continue
				}
				cont := core.FieldOf(cfa)
				// value type must be the owner of f
				if core.NamedTypeName(mu.Value.Type()) != o.u.fieldOwner[f] {
					continue
				}
				// is (mu.Value).f tested non-nil on an edge dominating b?
				ok2 := false
				for _, blk := range fn.Blocks {
					for _, i2 := range blk.Instrs {
						fa2, isFA := i2.(*ssa.FieldAddr)
						if !isFA || core.FieldOf(fa2) != f || !sameBase(fa2.X, mu.Value) || fa2.Referrers() == nil {
							continue
						}
						for _, r := range *fa2.Referrers() {
							if l2, isLd := r.(*ssa.UnOp); isLd && core.DominatedByNil(l2, b, false) {
								ok2 = true
							}
						}
					}
				}
				if ok2 {
					good[cont] = true
				} else {
					bad[cont] = true
				}
			}
		}
	}
	for c := range bad {
		delete(good, c)
	}
	o.containers[f] = good
	return good
}

// fromGuardedContainer: v derives (extract/phi/type assertion, parameters through all static callers) from a lookup in a
// container that is guarded for f.
func (o *optNil) fromGuardedContainer(fn *ssa.Function, v ssa.Value, f *types.Var, depth int) bool {
	conts := o.guardedContainers(f)
	if len(conts) == 0 {
		return false
	}
	seen := map[ssa.Value]bool{}
	var ok func(x ssa.Value) bool
	ok = func(x ssa.Value) bool {
		if seen[x] {
			return true
		}
		seen[x] = true
		switch t := x.(type) {
		case *ssa.Extract:
			return ok(t.Tuple)
		case *ssa.Lookup:
			if ld, isLd := t.X.(*ssa.UnOp); isLd {
				if cfa, isFA := ld.X.(*ssa.FieldAddr); isFA && conts[core.FieldOf(cfa)] {
					return true
				}
			}
			return false
		case *ssa.Phi:
			for _, e := range t.Edges {
				if !ok(e) {
					return false
				}
			}
			return true
		case *ssa.TypeAssert:
			return ok(t.X)
		case *ssa.UnOp:
			// spilled local
			if al, isAl := t.X.(*ssa.Alloc); isAl && al.Referrers() != nil {
				any := false
				for _, r := range *al.Referrers() {
					if st, isSt := r.(*ssa.Store); isSt && st.Addr == ssa.Value(al) {
						any = true
						if !ok(st.Val) {
							return false
						}
					}
				}
				return any
			}
			return false
		case *ssa.Parameter:
			if depth == 0 {
				return false
			}
			pf := t.Parent()
			idx := -1
			for i, q := range pf.Params {
				if q == t {
					idx = i
				}
			}
			if o.allFuncs == nil {
				o.allFuncs = o.prog.ModuleFuncs()
			}
			callers := core.CallersOf(pf, o.allFuncs)
			if idx < 0 || len(callers) == 0 {
				return false
			}
			for _, cs := range callers {
				args := cs.Common().Args
				if idx >= len(args) {
					return false
				}
				if !o.fromGuardedContainer(cs.Parent(), args[idx], f, depth-1) {
					return false
				}
			}
			return true
		}
		return false
	}
	return ok(v)
}

// guardedAtCallSites: the node is a parameter of fn, and every static call of fn in the module hands over a node
// whose field f was tested non-nil on an edge dominating the call (`if stmt.Value != nil { l.lintInitialValue(stmt) }`):
// the test moved to the callers when the helper was extracted.
func (o *optNil) guardedAtCallSites(fn *ssa.Function, fa *ssa.FieldAddr, f *types.Var) bool {
	p, ok := fa.X.(*ssa.Parameter)
	if !ok {
		return false
	}
	idx := -1
	for i, q := range fn.Params {
		if q == p {
			idx = i
		}
	}
	if idx < 0 {
		return false
	}
	sites := 0
	for _, g := range o.prog.ModuleFuncs() {
		for _, b := range g.Blocks {
			for _, in := range b.Instrs {
				call, isCall := in.(*ssa.Call)
				if !isCall || call.Common().StaticCallee() != fn || idx >= len(call.Common().Args) {
					continue
				}
				sites++
				arg := call.Common().Args[idx]
				guarded := false
				for _, blk := range g.Blocks {
					for _, i2 := range blk.Instrs {
						fa2, isFA := i2.(*ssa.FieldAddr)
						if !isFA || core.FieldOf(fa2) != f || !sameBase(fa2.X, arg) || fa2.Referrers() == nil {
							continue
						}
						for _, r := range *fa2.Referrers() {
							if l2, isLd := r.(*ssa.UnOp); isLd && core.DominatedByNil(l2, b, false) {
								guarded = true
							}
						}
					}
				}
				if !guarded {
					return false
				}
			}
		}
	}
	return sites > 0
}
