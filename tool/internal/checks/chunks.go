package checks

import (
	"fmt"
	"go/token"
	"go/types"

	"fv/internal/core"

	"golang.org/x/tools/go/ssa"
)

// checkChunks (fmt.chunks): chunking may only insert breaks, never drop a chunk.
//   - conservation: every chunk dequeued by nextChunk(), and every *Chunk parameter of a function returning text, has on
//     every path (from the point it is known non-nil to the next dequeue / return) its buffer used as text, or is
//     handed to an emitter, or was compared equal to a constant (which is then written in its place);
//   - (*ChunkBuffer).String writes chunks[i].buffer for every i: the write is controlled by nothing but the loop.
func checkChunks(c *core.Ctx) {
	prog := c.Prog
	next := prog.SSAFunc("formatter", "ChunkBuffer.nextChunk")
	str := prog.SSAFunc("formatter", "ChunkBuffer.String")
	if next == nil || str == nil {
		c.MissingAnchor("fmt.chunks", "formatter.(*ChunkBuffer).nextChunk / String")
		return
	}
	// emitters: functions of the package that take a *Chunk and return text
	isChunkPtr := func(t types.Type) bool {
		p, ok := t.(*types.Pointer)
		return ok && core.NamedTypeName(p.Elem()) == "Chunk"
	}
	isEmitter := func(fn *ssa.Function) bool {
		if fn == nil || fn.Pkg != next.Pkg || fn.Signature.Results().Len() == 0 {
			return false
		}
		b, ok := fn.Signature.Results().At(0).Type().Underlying().(*types.Basic)
		return ok && b.Kind() == types.String
	}
	// conserved: on every path from the point where chunk value v is known to be non-nil to the function's exit or back
	// to v's definition, v's buffer is used as text (concatenated, passed to a call), v is handed to an emitter, or the
	// path takes the true edge of `v.buffer == "<const>"` (the constant is written in its place).
	conserved := func(fn *ssa.Function, v ssa.Value, defBlock *ssa.BasicBlock, defIdx int) (bool, string) {
		discharging := map[ssa.Instruction]bool{}
		dischargingBlocks := map[*ssa.BasicBlock]bool{}
		blockEnd := map[*ssa.BasicBlock]bool{}
		var nonNil []*ssa.BasicBlock
		if v.Referrers() != nil {
			for _, r := range *v.Referrers() {
				switch t := r.(type) {
				case *ssa.BinOp:
					if (t.Op == token.EQL || t.Op == token.NEQ) && (core.IsNilConst(t.X) || core.IsNilConst(t.Y)) && t.Referrers() != nil {
						for _, rr := range *t.Referrers() {
							if iff, ok := rr.(*ssa.If); ok {
								if t.Op == token.EQL {
									nonNil = append(nonNil, iff.Block().Succs[1])
								} else {
									nonNil = append(nonNil, iff.Block().Succs[0])
								}
							}
						}
					}
				case *ssa.FieldAddr:
					if f := core.FieldOf(t); f == nil || f.Name() != "buffer" || t.Referrers() == nil {
						continue
					}
					for _, ld := range *t.Referrers() {
						lv, ok := ld.(*ssa.UnOp)
						if !ok || lv.Referrers() == nil {
							continue
						}
						for _, u := range *lv.Referrers() {
							switch ut := u.(type) {
							case *ssa.BinOp:
								switch ut.Op {
								case token.ADD:
									if hasRealUse(ut) {
										discharging[ut] = true
									}
								case token.EQL, token.NEQ:
									_, kx := ut.X.(*ssa.Const)
									_, ky := ut.Y.(*ssa.Const)
									_, eq, _ := core.EqCond(ut)
									if (kx || ky) && ut.Referrers() != nil {
										for _, rr := range *ut.Referrers() {
											if iff, ok := rr.(*ssa.If); ok && len(iff.Block().Succs[eq].Preds) == 1 {
												dischargingBlocks[iff.Block().Succs[eq]] = true
											}
										}
									}
								}
							case ssa.CallInstruction:
								discharging[u] = true
							case *ssa.Store, *ssa.Return, *ssa.MakeInterface:
								discharging[u] = true
							case *ssa.Phi:
								// the text becomes the value of a variable on the edge from the corresponding predecessor
								if hasRealUse(ut) {
									for i, e := range ut.Edges {
										if e == lv {
											blockEnd[ut.Block().Preds[i]] = true
										}
									}
								}
							}
						}
					}
				case ssa.CallInstruction:
					if isEmitter(t.Common().StaticCallee()) {
						for _, a := range t.Common().Args {
							if a == v {
								discharging[t] = true
							}
						}
					}
				}
			}
		}
		blockDischarges := func(b *ssa.BasicBlock, from int) bool {
			if (dischargingBlocks[b] && from == 0) || blockEnd[b] {
				return true
			}
			for _, in := range b.Instrs[from:] {
				if discharging[in] {
					return true
				}
			}
			return false
		}
		var bad string
		seen := map[*ssa.BasicBlock]bool{}
		var walk func(b *ssa.BasicBlock, from int)
		walk = func(b *ssa.BasicBlock, from int) {
			if bad != "" || blockDischarges(b, from) {
				return
			}
			if _, isRet := b.Instrs[len(b.Instrs)-1].(*ssa.Return); isRet {
				bad = "the return at " + prog.Loc(b.Instrs[len(b.Instrs)-1].Pos())
				return
			}
			for _, s := range b.Succs {
				if s == defBlock && defBlock != nil {
					if _, isParam := v.(*ssa.Parameter); !isParam {
						bad = "the next dequeue (loop back from " + prog.Loc(b.Instrs[len(b.Instrs)-1].Pos()) + ")"
						return
					}
				}
				if !seen[s] {
					seen[s] = true
					walk(s, 0)
				}
			}
		}
		if len(nonNil) > 0 {
			for _, s := range nonNil {
				seen[s] = true
				walk(s, 0)
			}
		} else if defBlock != nil {
			walk(defBlock, defIdx+1)
		} else {
			walk(fn.Blocks[0], 0)
		}
		return bad == "", bad
	}
	// peeksAndCopies: the function looks ahead with peekChunk and every peeked chunk's buffer is read as text
	peek := prog.SSAFunc("formatter", "ChunkBuffer.peekChunk")
	peeksAndCopies := func(fn *ssa.Function) bool {
		n := 0
		for _, b := range fn.Blocks {
			for _, in := range b.Instrs {
				call, ok := in.(*ssa.Call)
				if !ok || peek == nil || call.Common().StaticCallee() != peek {
					continue
				}
				copied := false
				for _, u := range valueUsesThroughPhi(call) {
					if fa, isFA := u.(*ssa.FieldAddr); isFA && core.FieldOf(fa) != nil && core.FieldOf(fa).Name() == "buffer" {
						copied = true
					}
				}
				if !copied {
					return false
				}
				n++
			}
		}
		return n > 0
	}
	for _, fn := range prog.ModuleFuncs("formatter") {
		if len(fn.Blocks) == 0 {
			continue
		}
		// *Chunk parameters of emitters
		if isEmitter(fn) {
			for _, par := range fn.Params[1:] {
				if !isChunkPtr(par.Type()) {
					continue
				}
				key := core.FnName(fn) + "|param " + par.Name()
				if ok, why := conserved(fn, par, nil, 0); ok {
					c.Discharge("fmt.chunks", key, fn.Pos(), "on every path the chunk's text is written, the chunk is handed to another emitter, or it was compared equal to the constant written in its place")
				} else {
					c.Report("fmt.chunks", key, fn.Pos(), core.FnName(fn)+" receives a chunk of the expression and there is a path to "+why+" on which its text is neither written nor handed on: that piece of the expression disappears from the formatted output")
				}
			}
		}
		n := 0
		for _, b := range fn.Blocks {
			for idx, in := range b.Instrs {
				call, ok := in.(*ssa.Call)
				if !ok || call.Common().StaticCallee() != next {
					continue
				}
				c.CallSite()
				n++
				key := fmt.Sprintf("%s|nextChunk#%d", core.FnName(fn), n)
				if (call.Referrers() == nil || len(*call.Referrers()) == 0) && peeksAndCopies(fn) {
					c.Discharge("fmt.chunks", key, in.Pos(), "advance over chunks whose buffers the same function copied through peekChunk")
					continue
				}
				if call.Referrers() == nil || len(*call.Referrers()) == 0 {
					c.Report("fmt.chunks", key, in.Pos(), "a chunk is taken from the expression queue and its value discarded: part of the expression disappears from the formatted output")
					continue
				}
				if ok, why := conserved(fn, call, b, idx); ok {
					c.Discharge("fmt.chunks", key, in.Pos(), "on every path to the next dequeue / return the chunk's text is written, the chunk is handed to an emitter, or it was compared equal to the constant written in its place")
				} else {
					c.Report("fmt.chunks", key, in.Pos(), "a chunk is taken from the expression queue and there is a path to "+why+" on which its text is neither written nor handed to an emitter: part of the expression disappears from the formatted output")
				}
			}
		}
	}
	// String(): the buffer write is controlled only by the loop condition
	cd := core.NewCtrlDeps(str)
	found := false
	for _, b := range str.Blocks {
		for _, in := range b.Instrs {
			call, ok := in.(*ssa.Call)
			if !ok || call.Common().StaticCallee() == nil || call.Common().StaticCallee().Name() != "WriteString" {
				continue
			}
			fromBuffer := false
			for x := range core.BackSlice(call.Common().Args[1]) {
				if f := core.FieldOf(x); f != nil && f.Name() == "buffer" {
					fromBuffer = true
				}
			}
			if !fromBuffer {
				continue
			}
			found = true
			extra := 0
			for _, e := range cd.Transitive(b) {
				cond := core.BranchCond(e.From)
				bo, isBo := cond.(*ssa.BinOp)
				if isBo && bo.Op == token.LSS {
					continue // range loop condition
				}
				extra++
			}
			if extra == 0 {
				c.Discharge("fmt.chunks", "ChunkBuffer.String|write-buffer", in.Pos(), "every chunk's buffer is written; only the loop condition controls the write")
			} else {
				c.Report("fmt.chunks", "ChunkBuffer.String|write-buffer", in.Pos(), "the write of a chunk's buffer in (*ChunkBuffer).String is conditional: some chunks are not printed")
			}
		}
	}
	if !found {
		c.Report("fmt.chunks", "ChunkBuffer.String|write-buffer", str.Pos(), "(*ChunkBuffer).String no longer writes the chunks' buffers")
	}
	c.Floor("fmt.chunks", 6)
}

func valueUsesThroughPhi(v ssa.Value) []ssa.Instruction {
	var out []ssa.Instruction
	seen := map[ssa.Value]bool{}
	var walk func(x ssa.Value)
	walk = func(x ssa.Value) {
		if seen[x] || x.Referrers() == nil {
			return
		}
		seen[x] = true
		for _, r := range *x.Referrers() {
			if phi, ok := r.(*ssa.Phi); ok {
				walk(phi)
				continue
			}
			out = append(out, r)
		}
	}
	walk(v)
	return out
}
