package checks

import (
	"fmt"
	"go/token"
	"go/types"
	"sort"
	"strings"

	"fv/internal/core"

	"golang.org/x/tools/go/ssa"
)

// C15 — formatting keeps every comment (E1 astcov, comment slots).
//
// Writer side: every place where package parser puts comments into a node: SwapLeadingTrailing/SwapLeadingInfix(from, to),
// stores into Meta.{Leading,Trailing,Infix} and into other ast.Comments-typed node fields, and the implicit Leading of a
// node built with `Meta: p.curToken`. Each is resolved to an owner descriptor: "T" (the node kind itself), "T.F" / "T.F[]"
// (a child reached through one field of the node under construction) or "~U" (only the static type is known).
// Reader side: inter-procedural summaries over formatter (+ the ast renderers it calls statically): which comment slots
// of which parameter-rooted access path a function reads, instantiated at call sites.
// Obligation: every (owner, slot) the parser can fill is read by the formatter.
func init() {
	register(&Check{ID: "C15", NeedSSA: true, Run: runC15})
}

type nodeDesc struct {
	root   ssa.Value // *ssa.Parameter, *ssa.Alloc or nil (type-only)
	narrow string    // dynamic node kind established by a type assertion / switch arm on an interface-typed root
	path   string    // "", ".F", ".F[]", ".F.G"
	typ    string    // static node type name at the end of the path ("" unknown / interface name prefixed by ~)
	meta   bool      // root is a *ast.Meta parameter: the owner is "the node owning this meta"
}

func (d nodeDesc) depth() int { return strings.Count(d.path, ".") }

type slotEntry struct {
	param int
	path  string
	slot  string
}

type cmtAnalysis struct {
	prog      *core.Program
	u         *astUniverse
	summaries map[*ssa.Function]map[slotEntry]bool
	funcs     []*ssa.Function
}

func astNodeName(t types.Type) string {
	n := core.NamedTypePkgName(t)
	if !strings.HasPrefix(n, astPkgPath+".") {
		return ""
	}
	u := types.Unalias(t)
	if pt, ok := u.(*types.Pointer); ok {
		u = types.Unalias(pt.Elem())
	}
	if _, isStruct := u.Underlying().(*types.Struct); !isStruct {
		return ""
	}
	return strings.TrimPrefix(n, astPkgPath+".")
}

func isCommentsType(t types.Type) bool {
	return core.NamedTypePkgName(t) == astPkgPath+".Comments"
}

// armTypeFor: the node kind established for interface value v on every path into block b
// (b is dominated by the ok-edge of `v.(*ast.T)`), or "".
func armTypeFor(v ssa.Value, b *ssa.BasicBlock) string {
	refs := v.Referrers()
	if refs == nil {
		return ""
	}
	for _, r := range *refs {
		ta, ok := r.(*ssa.TypeAssert)
		if !ok || ta.X != v {
			continue
		}
		n := astNodeName(ta.AssertedType)
		if n == "" {
			continue
		}
		if !ta.CommaOk {
			if ta.Block().Dominates(b) {
				return n
			}
			continue
		}
		if ta.Referrers() == nil {
			continue
		}
		for _, r2 := range *ta.Referrers() {
			ex, ok := r2.(*ssa.Extract)
			if !ok || ex.Index != 1 || ex.Referrers() == nil {
				continue
			}
			for _, r3 := range *ex.Referrers() {
				if iff, ok := r3.(*ssa.If); ok && core.EdgeDominates(iff.Block(), 0, b) {
					return n
				}
			}
		}
	}
	return ""
}

func (a *cmtAnalysis) descsNode(v ssa.Value, at *ssa.BasicBlock, seen map[ssa.Value]bool) []nodeDesc {
	if v == nil || seen[v] {
		return nil
	}
	seen[v] = true
	defer delete(seen, v)
	switch t := v.(type) {
	case *ssa.Parameter:
		if n := astNodeName(t.Type()); n != "" && a.u.nodes[n] != nil {
			return []nodeDesc{{root: t, typ: n}}
		}
		if _, ok := t.Type().Underlying().(*types.Interface); ok {
			d := nodeDesc{root: t, typ: "~" + core.NamedTypeName(t.Type())}
			if at != nil {
				if n := armTypeFor(t, at); n != "" {
					d.narrow, d.typ = n, n
				}
			}
			return []nodeDesc{d}
		}
		return nil
	case *ssa.Alloc:
		if n := astNodeName(t.Type()); n != "" && a.u.nodes[n] != nil {
			return []nodeDesc{{root: t, typ: n}}
		}
		// a local cell: follow what is stored
		var out []nodeDesc
		if refs := t.Referrers(); refs != nil {
			for _, r := range *refs {
				if st, ok := r.(*ssa.Store); ok && st.Addr == ssa.Value(t) {
					out = append(out, a.descsNode(st.Val, st.Block(), seen)...)
				}
			}
		}
		return out
	case *ssa.FreeVar:
		return []nodeDesc{{typ: typeOnly(t.Type())}}
	case *ssa.TypeAssert:
		ds := a.descsNode(t.X, at, seen)
		n := astNodeName(t.AssertedType)
		for i := range ds {
			if n != "" && ds[i].root != nil {
				// the dynamic kind is now known: re-root the descriptor at that kind
				ds[i].narrow = n
				ds[i].path = ""
			}
			if n != "" {
				ds[i].typ = n
			}
		}
		return ds
	case *ssa.Extract:
		if ta, ok := t.Tuple.(*ssa.TypeAssert); ok && t.Index == 0 {
			return a.descsNode(ta, at, seen)
		}
		return a.descsStored(v)
	case *ssa.MakeInterface:
		return a.descsNode(t.X, at, seen)
	case *ssa.ChangeInterface:
		return a.descsNode(t.X, at, seen)
	case *ssa.ChangeType:
		return a.descsNode(t.X, at, seen)
	case *ssa.Phi:
		var out []nodeDesc
		for i, e := range t.Edges {
			pred := t.Block().Preds[i]
			out = append(out, a.descsNode(e, pred, seen)...)
		}
		return out
	case *ssa.UnOp:
		if t.Op != token.MUL {
			return nil
		}
		switch x := t.X.(type) {
		case *ssa.FieldAddr:
			f := core.FieldOf(x)
			if f == nil {
				return nil
			}
			return a.extend(a.descsNode(x.X, at, seen), "."+f.Name(), f.Type())
		case *ssa.IndexAddr:
			// element of a slice-typed parameter: type-rooted at the element kind
			if p, ok := x.X.(*ssa.Parameter); ok {
				if sl, ok := p.Type().Underlying().(*types.Slice); ok {
					if n := astNodeName(sl.Elem()); n != "" {
						return []nodeDesc{{root: p, narrow: n, typ: n}}
					}
				}
			}
			// element of a slice loaded from a field
			if ld, ok := x.X.(*ssa.UnOp); ok && ld.Op == token.MUL {
				if fa, ok := ld.X.(*ssa.FieldAddr); ok {
					if f := core.FieldOf(fa); f != nil {
						et := f.Type()
						if sl, ok := et.Underlying().(*types.Slice); ok {
							et = sl.Elem()
						}
						return a.extend(a.descsNode(fa.X, at, seen), "."+f.Name()+"[]", et)
					}
				}
			}
			return []nodeDesc{{typ: typeOnly(t.Type())}}
		case *ssa.Alloc:
			return a.descsNode(x, at, seen)
		case *ssa.FreeVar:
			return []nodeDesc{{typ: typeOnly(t.Type())}}
		}
		return []nodeDesc{{typ: typeOnly(t.Type())}}
	case *ssa.Field:
		f := core.FieldOf(t)
		if f == nil {
			return nil
		}
		return a.extend(a.descsNode(t.X, at, seen), "."+f.Name(), f.Type())
	case *ssa.Call:
		return a.descsStored(v)
	}
	return []nodeDesc{{typ: typeOnly(v.Type())}}
}

func typeOnly(t types.Type) string {
	if n := astNodeName(t); n != "" {
		return n
	}
	return "~" + core.NamedTypeName(t)
}

func (a *cmtAnalysis) extend(ds []nodeDesc, step string, ft types.Type) []nodeDesc {
	var out []nodeDesc
	for _, d := range ds {
		nd := d
		nd.typ = typeOnly(ft)
		if d.root == nil || d.depth() >= 3 || d.meta {
			nd.root, nd.path, nd.narrow = nil, "", ""
		} else {
			nd.path = d.path + step
		}
		out = append(out, nd)
	}
	return out
}

// descsStored: a value produced by a call: where is it stored? field of a node under construction => "T.F".
func (a *cmtAnalysis) descsStored(v ssa.Value) []nodeDesc {
	var out []nodeDesc
	vals := map[ssa.Value]bool{v: true}
	if refs := v.Referrers(); refs != nil {
		for _, r := range *refs {
			if mi, ok := r.(*ssa.MakeInterface); ok {
				vals[mi] = true
			}
			if ex, ok := r.(*ssa.Extract); ok {
				vals[ex] = true
				if ex.Referrers() != nil {
					for _, r2 := range *ex.Referrers() {
						if mi, ok := r2.(*ssa.MakeInterface); ok {
							vals[mi] = true
						}
					}
				}
			}
		}
	}
	for x := range vals {
		if x.Referrers() == nil {
			continue
		}
		for _, r := range *x.Referrers() {
			st, ok := r.(*ssa.Store)
			if !ok || st.Val != x {
				continue
			}
			switch ad := st.Addr.(type) {
			case *ssa.FieldAddr:
				if f := core.FieldOf(ad); f != nil {
					out = append(out, a.extend(a.descsNode(ad.X, st.Block(), map[ssa.Value]bool{}), "."+f.Name(), f.Type())...)
				}
			case *ssa.IndexAddr:
				// element of the variadic slice of an append whose result is stored into a field: T.F[]
				arr, ok := ad.X.(*ssa.Alloc)
				if !ok || arr.Referrers() == nil {
					continue
				}
				for _, r2 := range *arr.Referrers() {
					sl, ok := r2.(*ssa.Slice)
					if !ok || sl.Referrers() == nil {
						continue
					}
					for _, r3 := range *sl.Referrers() {
						call, ok := r3.(*ssa.Call)
						if !ok {
							continue
						}
						if bi, ok := call.Common().Value.(*ssa.Builtin); !ok || bi.Name() != "append" || call.Referrers() == nil {
							continue
						}
						for _, r4 := range *call.Referrers() {
							st2, ok := r4.(*ssa.Store)
							if !ok {
								continue
							}
							if fa, ok := st2.Addr.(*ssa.FieldAddr); ok {
								if f := core.FieldOf(fa); f != nil {
									et := f.Type()
									if slt, ok := et.Underlying().(*types.Slice); ok {
										et = slt.Elem()
									}
									out = append(out, a.extend(a.descsNode(fa.X, st2.Block(), map[ssa.Value]bool{}), "."+f.Name()+"[]", et)...)
								}
							}
						}
					}
				}
			}
		}
	}
	if len(out) == 0 {
		out = append(out, nodeDesc{typ: typeOnly(v.Type())})
	}
	return out
}

// descsMeta: owners of a *ast.Meta value.
func (a *cmtAnalysis) descsMeta(m ssa.Value, at *ssa.BasicBlock, seen map[ssa.Value]bool) []nodeDesc {
	if m == nil || seen[m] {
		return nil
	}
	seen[m] = true
	defer delete(seen, m)
	switch t := m.(type) {
	case *ssa.Parameter:
		return []nodeDesc{{root: t, meta: true, typ: "~Meta"}}
	case *ssa.Phi:
		var out []nodeDesc
		for i, e := range t.Edges {
			out = append(out, a.descsMeta(e, t.Block().Preds[i], seen)...)
		}
		return out
	case *ssa.UnOp:
		if t.Op != token.MUL {
			return nil
		}
		if fa, ok := t.X.(*ssa.FieldAddr); ok {
			f := core.FieldOf(fa)
			if f != nil && f.Name() == "Meta" && f.Embedded() {
				return a.descsNode(fa.X, at, map[ssa.Value]bool{})
			}
			if f != nil && core.FieldOwner(fa) == core.ModPath+"/parser.Parser" {
				return []nodeDesc{{typ: "token:" + f.Name()}}
			}
		}
		if al, ok := t.X.(*ssa.Alloc); ok {
			var out []nodeDesc
			if refs := al.Referrers(); refs != nil {
				for _, r := range *refs {
					if st, ok := r.(*ssa.Store); ok && st.Addr == ssa.Value(al) {
						out = append(out, a.descsMeta(st.Val, st.Block(), seen)...)
					}
				}
			}
			return out
		}
		return []nodeDesc{{typ: "~Meta"}}
	case *ssa.Call:
		cc := t.Common()
		if cc.IsInvoke() && cc.Method.Name() == "GetMeta" {
			ds := a.descsNode(cc.Value, t.Block(), map[ssa.Value]bool{})
			// a generic read on an interface value covers every kind the function asserts that value to
			if refs := cc.Value.Referrers(); refs != nil {
				for _, r := range *refs {
					if ta, ok := r.(*ssa.TypeAssert); ok && ta.X == cc.Value {
						if n := astNodeName(ta.AssertedType); n != "" {
							for _, d := range ds {
								if d.root != nil {
									ds = append(ds, nodeDesc{root: d.root, narrow: n, typ: n})
									break
								}
							}
						}
					}
				}
			}
			return ds
		}
		if cal := cc.StaticCallee(); cal != nil && cal.Name() == "GetMeta" && len(cc.Args) == 1 {
			return a.descsNode(cc.Args[0], t.Block(), map[ssa.Value]bool{})
		}
		if cal := cc.StaticCallee(); cal != nil && (cal.Name() == "clearComments" || cal.Name() == "New" || cal.Name() == "Clone" || cal.Name() == "CloneWithoutComments") {
			return []nodeDesc{{typ: "fresh"}}
		}
		return []nodeDesc{{typ: "~Meta"}}
	}
	return []nodeDesc{{typ: "~Meta"}}
}

func ownerName(d nodeDesc) string {
	if d.root == nil {
		return "~" + strings.TrimPrefix(d.typ, "~")
	}
	root := ""
	switch {
	case d.narrow != "":
		root = d.narrow
	case d.meta:
		root = "~Meta"
	default:
		if n := astNodeName(d.root.Type()); n != "" {
			root = n
		} else {
			root = "~" + core.NamedTypeName(d.root.Type())
		}
	}
	return root + d.path
}

// commentSlots of a node kind: the three Meta slots plus every other field of type ast.Comments.
func (a *cmtAnalysis) slotOfField(fa *ssa.FieldAddr) (slot string, isMeta bool, ok bool) {
	f := core.FieldOf(fa)
	if f == nil || !isCommentsType(f.Type()) {
		return "", false, false
	}
	if core.FieldOwner(fa) == astPkgPath+".Meta" {
		return f.Name(), true, true
	}
	if n := strings.TrimPrefix(core.FieldOwner(fa), astPkgPath+"."); a.u.nodes[n] != nil {
		return f.Name(), false, true
	}
	return "", false, false
}

// computeReaderSummaries: for every function, which (param, path, slot) it reads.
func (a *cmtAnalysis) computeReaderSummaries() {
	a.summaries = map[*ssa.Function]map[slotEntry]bool{}
	paramIdx := func(fn *ssa.Function, p ssa.Value) int {
		for i, q := range fn.Params {
			if ssa.Value(q) == p {
				return i
			}
		}
		return -1
	}
	add := func(fn *ssa.Function, d nodeDesc, slot string) bool {
		if d.root == nil {
			return false
		}
		i := paramIdx(fn, d.root)
		if i < 0 {
			return false
		}
		path := d.path
		if d.narrow != "" {
			path = "!" + d.narrow + path
		}
		e := slotEntry{i, path, slot}
		if a.summaries[fn] == nil {
			a.summaries[fn] = map[slotEntry]bool{}
		}
		if a.summaries[fn][e] {
			return false
		}
		a.summaries[fn][e] = true
		return true
	}
	for changed := true; changed; {
		changed = false
		for _, fn := range a.funcs {
			for _, b := range fn.Blocks {
				for _, in := range b.Instrs {
					for _, ds := range a.instrReads(fn, b, in) {
						if add(fn, ds.d, ds.slot) {
							changed = true
						}
					}
				}
			}
		}
	}
}

type descSlot struct {
	d    nodeDesc
	slot string
}

// instrReads: the (node description, slot) pairs instruction `in` reads, directly or through the summary of its callee.
func (a *cmtAnalysis) instrReads(fn *ssa.Function, b *ssa.BasicBlock, in ssa.Instruction) []descSlot {
	var out []descSlot
	switch t := in.(type) {
	case *ssa.FieldAddr:
		slot, isMeta, ok := a.slotOfField(t)
		if !ok || !readNotOnlyStored(t) {
			return nil
		}
		var ds []nodeDesc
		if isMeta {
			ds = a.descsMeta(t.X, b, map[ssa.Value]bool{})
		} else {
			ds = a.descsNode(t.X, b, map[ssa.Value]bool{})
		}
		for _, d := range ds {
			out = append(out, descSlot{d, slot})
		}
	case ssa.CallInstruction:
		cal := t.Common().StaticCallee()
		if cal == nil || a.summaries[cal] == nil {
			return nil
		}
		for e := range a.summaries[cal] {
			if e.param >= len(t.Common().Args) {
				continue
			}
			arg := t.Common().Args[e.param]
			var ds []nodeDesc
			if core.NamedTypePkgName(cal.Params[e.param].Type()) == astPkgPath+".Meta" {
				ds = a.descsMeta(arg, b, map[ssa.Value]bool{})
			} else {
				ds = a.descsNode(arg, b, map[ssa.Value]bool{})
			}
			for _, d := range ds {
				if d.root == nil {
					continue
				}
				nd := d
				p := e.path
				if strings.HasPrefix(p, "!") {
					// callee narrowed its interface parameter to a kind
					rest := p[1:]
					kind := rest
					if i := strings.Index(rest, "."); i >= 0 {
						kind, p = rest[:i], rest[i:]
					} else {
						p = ""
					}
					if nd.path == "" {
						nd.narrow = kind
					}
				}
				if strings.Count(nd.path+p, ".") > 3 {
					continue
				}
				nd.path += p
				out = append(out, descSlot{nd, e.slot})
			}
		}
	}
	return out
}

// entryOf turns a description rooted at a parameter of fn into a summary entry.
func (a *cmtAnalysis) entryOf(fn *ssa.Function, d nodeDesc, slot string) (slotEntry, bool) {
	if d.root == nil {
		return slotEntry{}, false
	}
	for i, q := range fn.Params {
		if ssa.Value(q) == d.root {
			path := d.path
			if d.narrow != "" {
				path = "!" + d.narrow + path
			}
			return slotEntry{i, path, slot}, true
		}
	}
	return slotEntry{}, false
}

// configDependentMisses: summary entries of fn whose read is not guaranteed under every formatter configuration.
// guaranteed(b) is the least fixpoint of: a block that reads the slot → true; a branch on a formatter option → both
// successors guaranteed (the configuration chooses adversarially); any other branch → some successor guaranteed (the
// data decides, e.g. `if len(comments) > 0`); return → false.
func (a *cmtAnalysis) configDependentMisses(fn *ssa.Function) []slotEntry {
	sum := a.summaries[fn]
	if len(sum) == 0 || len(fn.Blocks) == 0 {
		return nil
	}
	reads := map[slotEntry]map[*ssa.BasicBlock]bool{}
	for _, b := range fn.Blocks {
		for _, in := range b.Instrs {
			for _, ds := range a.instrReads(fn, b, in) {
				if e, ok := a.entryOf(fn, ds.d, ds.slot); ok {
					if reads[e] == nil {
						reads[e] = map[*ssa.BasicBlock]bool{}
					}
					reads[e][b] = true
				}
			}
		}
	}
	var out []slotEntry
	for e, rb := range reads {
		if !guaranteedUnderConfig(fn, rb) {
			out = append(out, e)
		}
	}
	return out
}

// guaranteedUnderConfig: see configDependentMisses. Functions without any option-dependent branch are not judged
// (guaranteed by definition): only the interplay with the configuration is decided here.
func guaranteedUnderConfig(fn *ssa.Function, rb map[*ssa.BasicBlock]bool) bool {
	isConfigCond := func(b *ssa.BasicBlock) bool {
		cond := core.BranchCond(b)
		if cond == nil {
			return false
		}
		for x := range core.BackSlice(cond) {
			if f := core.FieldOf(x); f != nil && strings.HasSuffix(core.FieldOwner(x), "/config.FormatConfig") {
				return true
			}
		}
		return false
	}
	configBlocks := map[*ssa.BasicBlock]bool{}
	any := false
	for _, b := range fn.Blocks {
		if isConfigCond(b) {
			configBlocks[b] = true
			any = true
		}
	}
	if !any {
		return true
	}
	g := map[*ssa.BasicBlock]bool{}
	for changed := true; changed; {
		changed = false
		for _, b := range fn.Blocks {
			if g[b] {
				continue
			}
			v := false
			switch {
			case rb[b]:
				v = true
			case len(b.Succs) == 0:
				v = false
			case len(b.Succs) == 2 && configBlocks[b]:
				v = g[b.Succs[0]] && g[b.Succs[1]]
			default:
				for _, s := range b.Succs {
					if g[s] {
						v = true
					}
				}
			}
			if v {
				g[b] = true
				changed = true
			}
		}
	}
	return g[fn.Blocks[0]]
}

func readNotOnlyStored(fa *ssa.FieldAddr) bool {
	if fa.Referrers() == nil {
		return false
	}
	for _, r := range *fa.Referrers() {
		switch t := r.(type) {
		case *ssa.Store:
			if t.Addr != ssa.Value(fa) {
				return true
			}
		case *ssa.DebugRef:
		case *ssa.UnOp:
			if hasRealUse(t) {
				return true
			}
		default:
			return true
		}
	}
	return false
}

type cmtWrite struct {
	rootIsAlloc bool
	kind        string // kind of the root alloc
	rest        string // path below the root
	owner string
	slot  string
	pos   token.Pos
	fn    *ssa.Function
	how   string
}

func (a *cmtAnalysis) writers() []cmtWrite {
	var out []cmtWrite
	for _, fn := range a.prog.ModuleFuncs("parser") {
		if a.prog.IsCanary(fn.Pos()) {
			continue
		}
		for _, b := range fn.Blocks {
			for _, in := range b.Instrs {
				switch t := in.(type) {
				case *ssa.Call:
					cal := t.Common().StaticCallee()
					if cal == nil || cal.Pkg == nil || cal.Pkg.Pkg.Path() != core.ModPath+"/parser" {
						continue
					}
					slot := ""
					switch cal.Name() {
					case "SwapLeadingTrailing":
						slot = "Trailing"
					case "SwapLeadingInfix":
						slot = "Infix"
					default:
						continue
					}
					for _, d := range a.descsMeta(t.Common().Args[1], b, map[ssa.Value]bool{}) {
						w := cmtWrite{owner: ownerName(d), slot: slot, pos: in.Pos(), fn: fn, how: cal.Name()}
						if al, ok := d.root.(*ssa.Alloc); ok && returnsAlloc(fn, al) {
							w.rootIsAlloc, w.kind, w.rest = true, astNodeName(al.Type()), d.path
						}
						out = append(out, w)
					}
				case *ssa.Store:
					fa, ok := t.Addr.(*ssa.FieldAddr)
					if !ok {
						continue
					}
					// implicit Leading: node built with Meta taken from the token window
					if f := core.FieldOf(fa); f != nil && f.Name() == "Meta" && f.Embedded() {
						if n := astNodeName(fa.X.Type()); n != "" && a.u.nodes[n] != nil {
							for _, d := range a.descsMeta(t.Val, b, map[ssa.Value]bool{}) {
								if strings.HasPrefix(d.typ, "token:") {
									if tokenLeadingDrained(fn, t, strings.TrimPrefix(d.typ, "token:")) {
										continue
									}
									w := cmtWrite{owner: n, slot: "Leading", pos: in.Pos(), fn: fn, how: "Meta: p." + strings.TrimPrefix(d.typ, "token:")}
									if al, ok := fa.X.(*ssa.Alloc); ok && returnsAlloc(fn, al) {
										w.rootIsAlloc, w.kind = true, n
									}
									out = append(out, w)
								}
							}
						}
						continue
					}
					slot, isMeta, ok := a.slotOfField(fa)
					if !ok || isEmptyComments(t.Val) {
						continue
					}
					var ds []nodeDesc
					if isMeta {
						ds = a.descsMeta(fa.X, b, map[ssa.Value]bool{})
					} else {
						ds = a.descsNode(fa.X, b, map[ssa.Value]bool{})
					}
					for _, d := range ds {
						if d.meta || strings.HasPrefix(d.typ, "token:") || d.typ == "fresh" {
							continue // helper bodies (SwapLeading*, clearComments) and moves between tokens
						}
						w := cmtWrite{owner: ownerName(d), slot: slot, pos: in.Pos(), fn: fn, how: "store"}
						if al, ok := d.root.(*ssa.Alloc); ok && returnsAlloc(fn, al) {
							w.rootIsAlloc, w.kind, w.rest = true, astNodeName(al.Type()), d.path
						}
						out = append(out, w)
					}
				}
			}
		}
	}
	return out
}

// returnContexts: for parser functions that return the node they allocate, the places callers store that
// result (field of a node under construction): callee -> owner strings like "IfStatement.Another[]".
func (a *cmtAnalysis) returnContexts() map[*ssa.Function][]string {
	out := map[*ssa.Function][]string{}
	for _, fn := range a.prog.ModuleFuncs("parser") {
		if a.prog.IsCanary(fn.Pos()) {
			continue
		}
		for _, b := range fn.Blocks {
			for _, in := range b.Instrs {
				call, ok := in.(*ssa.Call)
				if !ok {
					continue
				}
				cal := call.Common().StaticCallee()
				if cal == nil || cal.Pkg == nil || cal.Pkg.Pkg.Path() != core.ModPath+"/parser" {
					continue
				}
				for _, d := range a.descsStored(call) {
					if d.root != nil && d.path != "" {
						out[cal] = append(out[cal], ownerName(d))
					}
				}
			}
		}
	}
	return out
}

func returnsAlloc(fn *ssa.Function, al *ssa.Alloc) bool {
	for _, rs := range core.ReturnSites(fn) {
		for _, r := range rs.Results {
			if r == ssa.Value(al) {
				return true
			}
			if mi, ok := r.(*ssa.MakeInterface); ok && mi.X == ssa.Value(al) {
				return true
			}
		}
	}
	return false
}

func isEmptyComments(v ssa.Value) bool {
	// ast.Comments{} compiles to a slice of a zero-length array
	if sl, ok := v.(*ssa.Slice); ok {
		if al, ok := sl.X.(*ssa.Alloc); ok {
			if pt, ok := al.Type().Underlying().(*types.Pointer); ok {
				if at, ok := pt.Elem().Underlying().(*types.Array); ok && at.Len() == 0 {
					return true
				}
			}
		}
	}
	if core.IsNilConst(v) {
		return true
	}
	if ct, ok := v.(*ssa.ChangeType); ok {
		return isEmptyComments(ct.X)
	}
	return false
}

func runC15(c *core.Ctx) {
	c.Explanation = "Comment-slot coverage between parser (writer) and formatter (reader), decided on SSA: every site where the parser places comments — SwapLeadingTrailing/SwapLeadingInfix, stores to Meta.Leading/Trailing/Infix or to other ast.Comments fields of a node, and the implicit Leading of a node built from the token window — is resolved to an owner (node kind, or child reached through one field of the node under construction) and a slot. The formatter side is an inter-procedural summary (fixpoint over formatter and the ast renderers it calls statically) of which slots of which parameter-rooted access paths are read, with type-switch arms narrowing interface-typed roots. Obligation: every (owner, slot) the parser fills is read by some printer; a slot nobody reads loses every comment written there (including #FASTLY macros and falco-ignore annotations). Also formatComment emits every element of its argument."
	c.NotCovered = []string{"relative order of comments as a value property", "that the printed position re-parses into the same slot", "comments of tokens the parser consumes without transferring them (parser-side typestate, not attempted)", "owners resolved only by static type (~U) are matched weakly: any reader of that type and slot"}
	prog := c.Prog
	u := newAstUniverse(prog)
	if u == nil {
		c.MissingAnchor("cmt", "package ast")
		return
	}
	a := &cmtAnalysis{prog: prog, u: u}
	// reader function set: formatter + static closure into ast, including synthetic wrappers
	seen := map[*ssa.Function]bool{}
	var work []*ssa.Function
	work = append(work, prog.ModuleFuncs("formatter")...)
	for len(work) > 0 {
		f := work[len(work)-1]
		work = work[:len(work)-1]
		if f == nil || seen[f] || f.Blocks == nil {
			continue
		}
		seen[f] = true
		a.funcs = append(a.funcs, f)
		for _, b := range f.Blocks {
			for _, in := range b.Instrs {
				if cal := core.StaticCallee(in); cal != nil && cal.Pkg != nil {
					if p := cal.Pkg.Pkg.Path(); p == core.ModPath+"/formatter" || p == astPkgPath {
						work = append(work, cal)
					}
				} else if cal != nil && cal.Pkg == nil && cal.Blocks != nil {
					work = append(work, cal) // synthetic wrapper of a promoted method
				}
			}
		}
		work = append(work, f.AnonFuncs...)
	}
	sort.Slice(a.funcs, func(i, j int) bool { return a.funcs[i].String() < a.funcs[j].String() })
	a.computeReaderSummaries()

	// reader set, from formatter functions only
	readers := map[string]token.Pos{}
	for fn, sum := range a.summaries {
		if fn.Pkg == nil || fn.Pkg.Pkg.Path() != core.ModPath+"/formatter" {
			continue
		}
		c.Func(core.FnName(fn))
		for e := range sum {
			p := fn.Params[e.param]
			root := ""
			path := e.path
			if strings.HasPrefix(path, "!") {
				rest := path[1:]
				if i := strings.Index(rest, "."); i >= 0 {
					root, path = rest[:i], rest[i:]
				} else {
					root, path = rest, ""
				}
			} else if n := astNodeName(p.Type()); n != "" {
				root = n
			} else {
				root = "~" + core.NamedTypeName(p.Type())
			}
			readers[root+path+"|"+e.slot] = fn.Pos()
		}
	}
	exactReaders := map[string]bool{}
	for k := range readers {
		exactReaders[k] = true
	}
	// re-root reader owners at every prefix whose static type is a concrete node kind:
	// AclDeclaration.CIDRs[].Mask also reads AclCidr.Mask
	stepType := func(kind, step string) string {
		fname := strings.TrimSuffix(step, "[]")
		for _, f := range u.fields[kind] {
			if f.Name() == fname {
				t := f.Type()
				if sl, ok := t.Underlying().(*types.Slice); ok && strings.HasSuffix(step, "[]") {
					t = sl.Elem()
				}
				return astNodeName(t)
			}
		}
		return ""
	}
	for k, pos := range readers {
		owner, slot, _ := strings.Cut(k, "|")
		parts := strings.Split(owner, ".")
		kind := parts[0]
		for i := 1; i < len(parts) && kind != "" && u.nodes[kind] != nil; i++ {
			kind = stepType(kind, parts[i])
			if kind == "" {
				break
			}
			nk := kind
			if i+1 < len(parts) {
				nk += "." + strings.Join(parts[i+1:], ".")
			}
			if _, ok := readers[nk+"|"+slot]; !ok {
				readers[nk+"|"+slot] = pos
			}
		}
	}
	var rl []string
	for k := range readers {
		rl = append(rl, k)
	}
	sort.Strings(rl)
	c.Extra("reader_slots", len(rl))
	c.Extra("reader_slot_samples", rl[:min(len(rl), 40)])

	// generic coverage: ~Statement / ~Expression readers cover every kind dispatched there
	stmtArms, _ := typeSwitchArms(prog, "formatter", "Formatter.Format", "Formatter.formatStatement")
	exprArms, _ := typeSwitchArms(prog, "formatter", "Formatter.formatExpression")
	// static type of child fields
	fieldType := func(owner string) string {
		parts := strings.SplitN(owner, ".", 2)
		if len(parts) != 2 || u.nodes[parts[0]] == nil {
			return ""
		}
		fname := strings.TrimSuffix(parts[1], "[]")
		for _, f := range u.fields[parts[0]] {
			if f.Name() == fname {
				t := f.Type()
				if sl, ok := t.Underlying().(*types.Slice); ok && strings.HasSuffix(parts[1], "[]") {
					t = sl.Elem()
				}
				return typeOnly(t)
			}
		}
		return ""
	}
	covered := func(owner, slot string) (string, bool) {
		if _, ok := readers[owner+"|"+slot]; ok {
			return "read as " + owner, true
		}
		if !strings.Contains(owner, ".") && !strings.HasPrefix(owner, "~") {
			if _, arm := stmtArms[owner]; arm && u.stmt[owner] {
				if _, ok := readers["~Statement|"+slot]; ok {
					return "generic statement printer reads " + slot + " of every dispatched statement", true
				}
			}
			if _, arm := exprArms[owner]; arm && u.expr[owner] {
				if _, ok := readers["~Expression|"+slot]; ok {
					return "formatExpression reads " + slot + " of every expression", true
				}
			}
		}
		if strings.HasPrefix(owner, "~") {
			// weak: any reader whose owner has that static type
			tn := strings.TrimPrefix(owner, "~")
			for k := range readers {
				ko, ks, _ := strings.Cut(k, "|")
				if ks != slot {
					continue
				}
				if ko == tn || ko == owner || fieldType(ko) == tn || fieldType(ko) == owner {
					return "weak (static type only): read as " + ko, true
				}
				if (tn == "Expression" && u.expr[ko]) || (tn == "Statement" && u.stmt[ko]) {
					return "weak (static type only): read as " + ko, true
				}
			}
		}
		return "", false
	}

	// Nodes that share their *Meta with a child built from the same token (one reason each): the owner's slots are the child's.
	metaAliases := map[string]struct{ child, why string }{
		"SubroutineParameter": {"SubroutineParameter.Name", "ParseSubroutineDeclaration builds the parameter with Meta: p.curToken right after ParseIdent() built Name from the same token: one *Meta is shared, Name is printed with its comments"},
		"SubroutineDeclaration.Parameters[]": {"SubroutineDeclaration.Parameters[].Name", "same shared *Meta, addressed through the declaration"},
	}
	ws := a.writers()
	sort.Slice(ws, func(i, j int) bool { return ws[i].pos < ws[j].pos })
	seenKey := map[string]bool{}
	weak := 0
	for _, w := range ws {
		c.CallSite()
		key := w.owner + "|" + w.slot
		how, ok := covered(w.owner, w.slot)
		if al, has := metaAliases[w.owner]; !ok && has {
			if h2, ok2 := covered(al.child, w.slot); ok2 {
				how, ok = "alias of "+al.child+" ("+al.why+"): "+h2, true
			}
		}
		if strings.HasPrefix(how, "weak") {
			weak++
		}
		if ok {
			c.Discharge("cmt.slots", key, w.pos, how)
			continue
		}
		if seenKey[key] {
			c.Instance("cmt.slots")
			continue
		}
		seenKey[key] = true
		c.Report("cmt.slots", key, w.pos, fmt.Sprintf("the parser puts comments into %s of %s (%s in %s) but no printer reads that slot: a comment written there disappears from the formatted output", w.slot, w.owner, w.how, core.FnName(w.fn)))
	}
	// derived writers: the node a parser function returns is stored by its caller into a field of the same kind
	// (IfStatement inside IfStatement.Another[]): the type-rooted match would be masked by the outer printer, so the
	// exact access path must be read as well.
	ctxs := a.returnContexts()
	derived := 0
	for _, w := range ws {
		if !w.rootIsAlloc {
			continue
		}
		for _, ctx := range ctxs[w.fn] {
			ctxKind := strings.SplitN(ctx, ".", 2)[0]
			if ctxKind != w.kind {
				continue // only self-nesting contexts can be masked
			}
			derived++
			key := ctx + w.rest + "|" + w.slot
			if exactReaders[key] {
				c.Discharge("cmt.slots", key, w.pos, "exact access path read (nested occurrence of the same kind)")
			} else if !seenKey[key] {
				seenKey[key] = true
				c.Report("cmt.slots", key, w.pos, fmt.Sprintf("the parser puts comments into %s of %s%s (the node %s returns is stored there) but no printer reads that slot on this access path — only on the outer node of the same kind", w.slot, ctx, w.rest, core.FnName(w.fn)))
			}
		}
	}
	c.Extra("derived_nested_writer_sites", derived)
	c.Extra("writer_sites", len(ws))
	c.Extra("weakly_matched_writer_sites", weak)
	c.Floor("cmt.slots", 150)

	// ---- cmt.config: a slot a printer reads is read under every formatter configuration
	nCfg := 0
	for _, fn := range a.funcs {
		if fn.Pkg == nil || fn.Pkg.Pkg.Path() != core.ModPath+"/formatter" {
			continue
		}
		misses := a.configDependentMisses(fn)
		if a.summaries[fn] != nil {
			nCfg++
		}
		sort.Slice(misses, func(i, j int) bool {
			return fmt.Sprint(misses[i]) < fmt.Sprint(misses[j])
		})
		for _, e := range misses {
			pname := "?"
			if e.param < len(fn.Params) {
				pname = fn.Params[e.param].Name()
			}
			key := fmt.Sprintf("%s|%s%s.%s", core.FnName(fn), pname, e.path, e.slot)
			c.Report("cmt.config", key, fn.Pos(), fmt.Sprintf("%s prints the %s comments of %s%s only on some settings of a formatter option: under the other setting no path reads them and every comment written there is dropped from the output", core.FnName(fn), e.slot, pname, e.path))
		}
		if len(misses) == 0 && a.summaries[fn] != nil {
			c.Discharge("cmt.config", core.FnName(fn), fn.Pos(), "every slot this printer reads is read whatever the configuration")
		}
	}
	c.Extra("printers_checked_for_config_dependence", nCfg)
	// ---- cmt.macro: #FASTLY macro comments are exempt from the comment-style rewrite
	if fc := prog.SSAFunc("formatter", "Formatter.formatComment"); fc != nil {
		nConv := 0
		for _, b := range fc.Blocks {
			for _, in := range b.Instrs {
				call, ok := in.(*ssa.Call)
				if !ok {
					continue
				}
				cal := call.Common().StaticCallee()
				if cal == nil || cal.Name() != "formatCommentCharacter" {
					continue
				}
				nConv++
				guarded := false
				for _, blk := range fc.Blocks {
					iff, ok := blk.Instrs[len(blk.Instrs)-1].(*ssa.If)
					if !ok {
						continue
					}
					hp, ok := iff.Cond.(*ssa.Call)
					if !ok {
						continue
					}
					if hc := hp.Common().StaticCallee(); hc == nil || hc.Name() != "HasPrefix" {
						continue
					}
					if k, ok := hp.Common().Args[1].(*ssa.Const); !ok || k.Value == nil || !strings.Contains(k.Value.ExactString(), "#FASTLY") {
						continue
					}
					if core.EdgeDominates(blk, 1, b) {
						guarded = true
					}
				}
				key := fmt.Sprintf("formatComment|style-rewrite#%d", nConv)
				if guarded {
					c.Discharge("cmt.macro", key, in.Pos(), "only comments that are not #FASTLY macros are rewritten")
				} else {
					c.Report("cmt.macro", key, in.Pos(), "the comment-style rewrite is also applied to #FASTLY macro comments: with comment_style: slash the macro becomes `/FASTLY …`, which is neither a macro nor a comment")
				}
			}
		}
	}
	// helpers that receive the comments themselves (ast.Comments parameter)
	fcFn := prog.SSAFunc("formatter", "Formatter.formatComment")
	for _, fn := range a.funcs {
		if fn.Pkg == nil || fn.Pkg.Pkg.Path() != core.ModPath+"/formatter" || fn == fcFn {
			continue
		}
		for _, p := range fn.Params {
			if !isCommentsType(p.Type()) {
				continue
			}
			rb := map[*ssa.BasicBlock]bool{}
			for _, b := range fn.Blocks {
				for _, in := range b.Instrs {
					switch t := in.(type) {
					case ssa.CallInstruction:
						if cal := t.Common().StaticCallee(); cal != nil && cal.Pkg != nil && cal.Pkg.Pkg.Path() == core.ModPath+"/formatter" {
							for _, arg := range t.Common().Args {
								if isCommentsType(arg.Type()) && core.BackSlice(arg)[p] {
									rb[b] = true
								}
							}
						}
					case *ssa.IndexAddr:
						if core.BackSlice(t.X)[p] {
							rb[b] = true
						}
					case *ssa.Index:
						if core.BackSlice(t.X)[p] {
							rb[b] = true
						}
					}
				}
			}
			key := core.FnName(fn) + "|" + p.Name()
			if guaranteedUnderConfig(fn, rb) {
				c.Discharge("cmt.config", key, fn.Pos(), "the comments handed to this helper are printed whatever the configuration")
			} else {
				c.Report("cmt.config", key, fn.Pos(), fmt.Sprintf("%s receives comments (%s) but prints them only on some settings of a formatter option (or not at all): under the other setting they are dropped from the output", core.FnName(fn), p.Name()))
			}
		}
	}

	// formatComment emits every element
	if fc := prog.SSAFunc("formatter", "Formatter.formatComment"); fc == nil {
		c.MissingAnchor("cmt.emit", "formatter.(*Formatter).formatComment")
	} else {
		cd := core.NewCtrlDeps(fc)
		n := 0
		for _, b := range fc.Blocks {
			for _, in := range b.Instrs {
				call, ok := in.(*ssa.Call)
				if !ok || call.Common().StaticCallee() == nil || call.Common().StaticCallee().Name() != "WriteString" {
					continue
				}
				// the written text derives from comments[i]
				from := false
				for x := range core.BackSlice(call.Common().Args[1]) {
					if ia, ok := x.(*ssa.IndexAddr); ok && ia.X == ssa.Value(fc.Params[1]) {
						from = true
					}
				}
				if !from {
					continue
				}
				n++
			}
		}
		// every path through the loop body writes the comment: the set of writing blocks covers all branches of the style switch
		ok := n >= 2
		_ = cd
		if ok {
			c.Discharge("cmt.emit", "formatComment", fc.Pos(), fmt.Sprintf("%d writes of comments[i] (one per comment-style branch)", n))
		} else {
			c.Report("cmt.emit", "formatComment", fc.Pos(), "formatComment does not write comments[i] on every comment-style branch")
		}
		// must-write: from the loop body entry every path to the latch passes a write of comments[i]
		if !formatCommentMustWrite(fc) {
			c.Report("cmt.emit", "formatComment|must", fc.Pos(), "there is a path through formatComment's loop body that emits nothing for comments[i]")
		} else {
			c.Discharge("cmt.emit", "formatComment|must", fc.Pos(), "every path through the loop body writes comments[i]")
		}
	}
}

// formatCommentMustWrite: in the range loop of formatComment, every path from the body entry back to the loop header
// passes a WriteString whose argument derives from comments[i].
func formatCommentMustWrite(fc *ssa.Function) bool {
	var header *ssa.BasicBlock
	for _, l := range naturalLoops(fc) {
		if isRangeLoop(l.header) && header == nil {
			header = l.header
		}
	}
	if header == nil {
		return false
	}
	writes := map[*ssa.BasicBlock]bool{}
	for _, b := range fc.Blocks {
		for _, in := range b.Instrs {
			call, ok := in.(*ssa.Call)
			if !ok || call.Common().StaticCallee() == nil || call.Common().StaticCallee().Name() != "WriteString" {
				continue
			}
			for x := range core.BackSlice(call.Common().Args[1]) {
				if ia, ok := x.(*ssa.IndexAddr); ok && ia.X == ssa.Value(fc.Params[1]) {
					writes[b] = true
				}
			}
		}
	}
	// body entry = successor 0 of the header's If
	if len(header.Succs) != 2 {
		return false
	}
	body := header.Succs[0]
	seen := map[*ssa.BasicBlock]bool{}
	var walk func(b *ssa.BasicBlock) bool // true if header reachable without a write
	walk = func(b *ssa.BasicBlock) bool {
		if writes[b] {
			return false
		}
		if b == header {
			return true
		}
		if seen[b] {
			return false
		}
		seen[b] = true
		for _, s := range b.Succs {
			if walk(s) {
				return true
			}
		}
		return false
	}
	return !walk(body)
}

// tokenLeadingDrained: the Leading comments of the token (p.curToken / p.peekToken) were moved away by a
// SwapLeading*(p.<token>, …) that dominates the store, with no token advance in between.
func tokenLeadingDrained(fn *ssa.Function, store *ssa.Store, tokenField string) bool {
	isTokenLoad := func(v ssa.Value) bool {
		ld, ok := v.(*ssa.UnOp)
		if !ok || ld.Op != token.MUL {
			return false
		}
		fa, ok := ld.X.(*ssa.FieldAddr)
		return ok && core.FieldOf(fa) != nil && core.FieldOf(fa).Name() == tokenField && core.FieldOwner(fa) == core.ModPath+"/parser.Parser"
	}
	var swaps, advances []ssa.Instruction
	for _, b := range fn.Blocks {
		for _, in := range b.Instrs {
			call, ok := in.(*ssa.Call)
			if !ok {
				continue
			}
			cal := call.Common().StaticCallee()
			if cal == nil {
				continue
			}
			switch cal.Name() {
			case "SwapLeadingTrailing", "SwapLeadingInfix":
				if isTokenLoad(call.Common().Args[0]) {
					swaps = append(swaps, in)
				}
			case "NextToken", "ExpectPeek", "ReadPeek":
				advances = append(advances, in)
			default:
				// any other parser method may advance the window
				if cal.Signature.Recv() != nil && core.NamedTypeName(cal.Signature.Recv().Type()) == "Parser" &&
					cal.Name() != "PeekTokenIs" && cal.Name() != "CurTokenIs" && cal.Name() != "Trailing" && cal.Name() != "PrevTokenIs" {
					advances = append(advances, in)
				}
			}
		}
	}
	for _, s := range swaps {
		if !core.InstrDominates(s, store) {
			continue
		}
		clean := true
		for _, adv := range advances {
			if core.InstrDominates(s, adv) && (core.InstrDominates(adv, store) || (adv.Block() != store.Block() && adv.Block() != s.Block() && core.Reaches(adv.Block(), store.Block()))) {
				clean = false
			}
		}
		if clean {
			return true
		}
	}
	return false
}
