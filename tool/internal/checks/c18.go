package checks

import (
	"fmt"
	"go/token"
	"go/types"
	"sort"
	"strings"

	"fv/internal/core"

	"golang.org/x/tools/go/ssa"
)

// C18 — concurrent requests and plugins are serialisable (E11 lockset).
func init() {
	register(&Check{ID: "C18", NeedSSA: true, Run: runC18})
}

const interpPkg = core.ModPath + "/interpreter"

func isMutexCall(in ssa.Instruction, names ...string) (ssa.Value, string, bool) {
	ci, ok := in.(ssa.CallInstruction)
	if !ok {
		return nil, "", false
	}
	cal := ci.Common().StaticCallee()
	if cal == nil || cal.Pkg == nil || cal.Pkg.Pkg.Path() != "sync" || cal.Signature.Recv() == nil {
		return nil, "", false
	}
	rn := core.NamedTypeName(cal.Signature.Recv().Type())
	if rn != "Mutex" && rn != "RWMutex" {
		return nil, "", false
	}
	for _, n := range names {
		if cal.Name() == n {
			return ci.Common().Args[0], n, true
		}
	}
	return nil, "", false
}

func runC18(c *core.Ctx) {
	c.Explanation = "Lock discipline decided on SSA: (lock.extent) in (*Interpreter).ServeHTTP the call i.lock.Lock() dominates every access to a field of *Interpreter other than Debugger/lock, every call of an *Interpreter method and every closure capturing i; Unlock occurs only as a defer dominated by the Lock (held until return); (lock.entry) every function of handler shape func(ResponseWriter,*Request) in the module reaches the interpreter only through ServeHTTP; (go.shared) for every `go` statement of linter/interpreter/tester/ast that can have several live instances (it sits in a loop), every store, map update or append-store in the functions reachable from the goroutine (static call graph inside the module, arguments tracked: receiver/parameters that derive from captured variables, parameters or globals are shared) is dominated by a sync.Mutex Lock in its function or on the call chain. Necessary for race-freedom of requests and of plugin diagnostics; does not decide equality of responses with a serial order. (lock.release) every Lock/RLock in the module is released on every path to a return of its function."
	c.NotCovered = []string{"serialisability of responses as values", "races inside third-party packages and the standard library", "goroutines of dap/debugger/snippet/remote/cmd (reported as information in thorough tier)"}
	c.Assumptions = []string{"functions outside the falco module do not write falco's shared state", "values returned by calls are fresh unless they are loaded from shared memory"}
	prog := c.Prog
	all := prog.ModuleFuncs()

	// ---------------- (a) lock extent in ServeHTTP
	serve := prog.SSAFunc("interpreter", "Interpreter.ServeHTTP")
	if serve == nil {
		c.MissingAnchor("lock.extent", "interpreter.(*Interpreter).ServeHTTP")
		return
	}
	recv := serve.Params[0]
	var lockCall ssa.Instruction
	for _, b := range serve.Blocks {
		for _, in := range b.Instrs {
			if arg, _, ok := isMutexCall(in, "Lock"); ok {
				if fa, isFA := arg.(*ssa.FieldAddr); isFA && core.IsAliasOf(fa.X, recv) {
					if _, isDefer := in.(*ssa.Defer); !isDefer {
						lockCall = in
					}
				}
			}
		}
	}
	if lockCall == nil {
		c.Report("lock.extent", "ServeHTTP|no-lock", serve.Pos(), "ServeHTTP never acquires the interpreter's mutex: concurrent requests share ctx/process/vars unprotected")
	} else {
		exempt := map[string]bool{"Debugger": true, "lock": true}
		for _, b := range serve.Blocks {
			for _, in := range b.Instrs {
				what := ""
				switch t := in.(type) {
				case *ssa.FieldAddr:
					if core.IsAliasOf(t.X, recv) {
						if f := core.FieldOf(t); f != nil && !exempt[f.Name()] {
							what = "access to Interpreter." + f.Name()
						}
					}
				case *ssa.MakeClosure:
					for _, bind := range t.Bindings {
						if bind == ssa.Value(recv) || core.IsSpillCellOf(bind, recv) {
							what = "closure capturing the interpreter"
						}
					}
				case ssa.CallInstruction:
					cal := t.Common().StaticCallee()
					if cal != nil && cal.Signature.Recv() != nil && len(t.Common().Args) > 0 && core.IsAliasOf(t.Common().Args[0], recv) {
						what = "call of (*Interpreter)." + cal.Name()
					}
					if _, name, ok := isMutexCall(in, "Unlock"); ok {
						if _, isDefer := in.(*ssa.Defer); !isDefer {
							c.Report("lock.extent", "ServeHTTP|early-unlock", in.Pos(), "the interpreter mutex is released by a direct "+name+" inside ServeHTTP: the rest of the request runs unprotected")
						} else if !core.InstrDominates(lockCall, in) {
							c.Report("lock.extent", "ServeHTTP|unlock-order", in.Pos(), "deferred Unlock is registered on a path that did not Lock")
						} else {
							c.Discharge("lock.extent", "ServeHTTP|defer-unlock", in.Pos(), "deferred Unlock dominated by Lock: held to return")
						}
						continue
					}
				}
				if what == "" {
					continue
				}
				if core.InstrDominates(lockCall, in) {
					c.Discharge("lock.extent", "ServeHTTP|"+what, in.Pos(), "dominated by i.lock.Lock()")
				} else {
					c.Report("lock.extent", "ServeHTTP|"+what, in.Pos(), what+" is not dominated by i.lock.Lock(): it can run concurrently with another request")
				}
			}
		}
	}
	c.Floor("lock.extent", 8)
	checkLockRelease(c, "lock.release", all)

	// ---------------- lock.entry
	isHandlerShape := func(fn *ssa.Function) bool {
		ps := fn.Signature.Params()
		if ps.Len() != 2 {
			return false
		}
		return core.NamedTypePkgName(ps.At(0).Type()) == "net/http.ResponseWriter" && core.NamedTypePkgName(ps.At(1).Type()) == "net/http.Request"
	}
	for _, fn := range all {
		if !isHandlerShape(fn) || fn == serve {
			continue
		}
		// skip methods of Interpreter called under the lock (sendResponse etc. take only w)
		c.Func(core.FnName(fn))
		for _, b := range fn.Blocks {
			for _, in := range b.Instrs {
				ci, ok := in.(ssa.CallInstruction)
				if !ok {
					continue
				}
				cal := ci.Common().StaticCallee()
				if cal == nil || cal.Signature.Recv() == nil || core.NamedTypePkgName(cal.Signature.Recv().Type()) != interpPkg+".Interpreter" {
					continue
				}
				c.CallSite()
				if cal == serve {
					c.Discharge("lock.entry", core.FnName(fn), in.Pos(), "HTTP handler enters the interpreter through ServeHTTP")
				} else if fn.Signature.Recv() != nil && core.NamedTypePkgName(fn.Signature.Recv().Type()) == interpPkg+".Interpreter" {
					continue
				} else {
					c.Report("lock.entry", core.FnName(fn)+"|"+cal.Name(), in.Pos(), "an HTTP handler calls (*Interpreter)."+cal.Name()+" directly, bypassing the per-interpreter mutex of ServeHTTP")
				}
			}
		}
	}
	c.Floor("lock.entry", 2)

	// ---------------- (b) goroutines
	scope := []string{"linter", "interpreter", "tester", "ast"}
	if c.Thorough() {
		scope = nil
	}
	inScope := func(fn *ssa.Function) bool {
		if scope == nil {
			return true
		}
		if fn.Pkg == nil {
			return false
		}
		rel := strings.TrimPrefix(strings.TrimPrefix(fn.Pkg.Pkg.Path(), core.ModPath), "/")
		for _, s := range scope {
			if rel == s || strings.HasPrefix(rel, s+"/") {
				return true
			}
		}
		return false
	}
	propertyScope := func(fn *ssa.Function) bool {
		rel := strings.TrimPrefix(strings.TrimPrefix(fn.Pkg.Pkg.Path(), core.ModPath), "/")
		for _, s := range []string{"linter", "interpreter", "tester", "ast"} {
			if rel == s || strings.HasPrefix(rel, s+"/") {
				return true
			}
		}
		return false
	}
	goCount := 0
	for _, fn := range all {
		if !inScope(fn) {
			continue
		}
		for _, b := range fn.Blocks {
			for _, in := range b.Instrs {
				g, ok := in.(*ssa.Go)
				if !ok {
					continue
				}
				goCount++
				inLoop := false
				for _, s := range b.Succs {
					if core.Reaches(s, b) {
						inLoop = true
					}
				}
				key := core.FnName(fn) + "|go"
				// (go.escape) code of the simulator runs under the per-interpreter lock, which is released when ServeHTTP
				// returns: a goroutine that keeps using the interpreter or its request context outlives the lock
				if rel := strings.TrimPrefix(strings.TrimPrefix(fn.Pkg.Pkg.Path(), core.ModPath), "/"); rel == "interpreter" {
					if mc, ok := g.Common().Value.(*ssa.MakeClosure); ok {
						captured := ""
						for _, bind := range mc.Bindings {
							t := derefType(derefType(bind.Type()))
							switch core.NamedTypeName(t) {
							case "Interpreter", "Context":
								captured = core.NamedTypeName(t)
							}
						}
						if captured != "" {
							c.Report("go.escape", key+"|captures "+captured, in.Pos(), fmt.Sprintf("%s starts a goroutine that captures the %s: it keeps reading per-request state after ServeHTTP has returned and released the interpreter lock, concurrently with the next request", core.FnName(fn), captured))
						} else {
							c.Discharge("go.escape", key, in.Pos(), "the goroutine captures no interpreter state")
						}
					}
				}
				// (go.cancel) instances started in a loop must not cancel a context they share
				if inLoop {
					if mc, ok := g.Common().Value.(*ssa.MakeClosure); ok {
						cl := mc.Fn.(*ssa.Function)
						shared := ""
						for _, cb := range cl.Blocks {
							for _, ci := range cb.Instrs {
								call, ok := ci.(ssa.CallInstruction)
								if !ok {
									continue
								}
								v := call.Common().Value
								if ld, ok := v.(*ssa.UnOp); ok && ld.Op == token.MUL {
									v = ld.X
								}
								fv, ok := v.(*ssa.FreeVar)
								if !ok {
									continue
								}
								// what was captured: the cancel function of a context created outside the closure?
								for i, f2 := range cl.FreeVars {
									if f2 != fv || i >= len(mc.Bindings) {
										continue
									}
									for x := range core.BackSlice(mc.Bindings[i]) {
										if cc, ok := x.(*ssa.Call); ok {
											if cal := cc.Common().StaticCallee(); cal != nil && cal.Pkg != nil && cal.Pkg.Pkg.Path() == "context" && strings.HasPrefix(cal.Name(), "With") {
												shared = cal.Name()
											}
										}
									}
								}
							}
						}
						if shared != "" {
							c.Report("go.cancel", key+"|shared-cancel", in.Pos(), fmt.Sprintf("every goroutine started by this loop calls the cancel function of one context.%s created outside of it: the first one to finish cancels the others, whose results are lost", shared))
						} else {
							c.Discharge("go.cancel", key, in.Pos(), "no instance cancels a context shared with the others")
						}
					}
				}
				if !inLoop {
					if propertyScope(fn) {
						c.Discharge("go.shared", key, in.Pos(), "single instance (not in a loop); parent joins it")
					} else {
						c.Info("go statement at %s: single instance (out of property scope)", prog.Loc(in.Pos()))
					}
					continue
				}
				target := g.Common().StaticCallee()
				if target == nil {
					c.Report("go.shared", key+"|dynamic", in.Pos(), "goroutine target cannot be resolved statically (undecided obligations fail)")
					continue
				}
				// shared roots: every free variable and pointer-like argument
				sharedParams := map[int]bool{}
				for i := range g.Common().Args {
					if pointerLike(g.Common().Args[i].Type()) {
						sharedParams[i] = true
					}
				}
				var races []string
				seen := map[string]bool{}
				analyseShared(prog, target, sharedParams, true, false, seen, []string{core.FnName(target)}, &races)
				sort.Strings(races)
				if len(races) == 0 {
					if propertyScope(fn) {
						c.Discharge("go.shared", key, in.Pos(), "no unlocked store to shared memory reachable from the goroutine")
					}
					continue
				}
				for _, r := range dedupe(races) {
					parts := strings.SplitN(r, "\t", 3)
					msg := fmt.Sprintf("several instances of this goroutine run concurrently (go in a loop) and reach an unsynchronised write: %s", parts[1])
					if propertyScope(fn) {
						c.ReportAt("go.shared", key+"|"+parts[0], c.Prog.Rel(in.Pos()), c.Prog.Line(in.Pos()), msg, strings.Split(parts[2], " -> ")...)
					} else {
						c.Info("out-of-property goroutine at %s: %s", prog.Loc(in.Pos()), msg)
					}
				}
			}
		}
	}
	c.ExpectCanary("go.escape")
	c.Extra("go_statements_scanned", goCount)
	c.Floor("go.shared", 2)
}

func dedupe(s []string) []string {
	var out []string
	seen := map[string]bool{}
	for _, x := range s {
		k := strings.SplitN(x, "\t", 2)[0]
		if !seen[k] {
			seen[k] = true
			out = append(out, x)
		}
	}
	return out
}

func pointerLike(t types.Type) bool {
	switch types.Unalias(t).Underlying().(type) {
	case *types.Pointer, *types.Map, *types.Slice, *types.Interface, *types.Chan, *types.Signature:
		return true
	}
	return false
}

// addrRoots finds the roots an address/value derives from.
func addrRoots(v ssa.Value, out map[ssa.Value]bool, seen map[ssa.Value]bool) {
	if v == nil || seen[v] {
		return
	}
	seen[v] = true
	switch t := v.(type) {
	case *ssa.FieldAddr:
		addrRoots(t.X, out, seen)
	case *ssa.IndexAddr:
		addrRoots(t.X, out, seen)
	case *ssa.Field:
		addrRoots(t.X, out, seen)
	case *ssa.Index:
		addrRoots(t.X, out, seen)
	case *ssa.UnOp:
		addrRoots(t.X, out, seen)
	case *ssa.Phi:
		for _, e := range t.Edges {
			addrRoots(e, out, seen)
		}
	case *ssa.ChangeType:
		addrRoots(t.X, out, seen)
	case *ssa.Convert:
		addrRoots(t.X, out, seen)
	case *ssa.ChangeInterface:
		addrRoots(t.X, out, seen)
	case *ssa.MakeInterface:
		addrRoots(t.X, out, seen)
	case *ssa.TypeAssert:
		addrRoots(t.X, out, seen)
	case *ssa.Slice:
		addrRoots(t.X, out, seen)
	case *ssa.Extract:
		addrRoots(t.Tuple, out, seen)
	case *ssa.Lookup:
		addrRoots(t.X, out, seen)
	case *ssa.Alloc:
		// a local cell: what is stored into it may be shared (pointer values), the cell itself is not
		if t.Heap {
			out[t] = true
		} else {
			out[t] = true
		}
	default:
		out[v] = true
	}
}

// isSharedValue: does v derive from shared memory given the shared parameter set?
func isSharedValue(fn *ssa.Function, v ssa.Value, sharedParams map[int]bool, freeShared bool) bool {
	roots := map[ssa.Value]bool{}
	addrRoots(v, roots, map[ssa.Value]bool{})
	for r := range roots {
		switch t := r.(type) {
		case *ssa.Parameter:
			for i, p := range fn.Params {
				if p == t && sharedParams[i] {
					return true
				}
			}
		case *ssa.FreeVar:
			if freeShared {
				return true
			}
		case *ssa.Global:
			return true
		}
	}
	return false
}

// analyseShared walks the functions reachable from fn and records unlocked writes to shared memory.
func analyseShared(prog *core.Program, fn *ssa.Function, sharedParams map[int]bool, freeShared, locked bool, seen map[string]bool, chain []string, races *[]string) {
	if fn == nil || fn.Blocks == nil || fn.Pkg == nil || !strings.HasPrefix(fn.Pkg.Pkg.Path(), core.ModPath) {
		return
	}
	var ks []string
	for i := range sharedParams {
		ks = append(ks, fmt.Sprint(i))
	}
	sort.Strings(ks)
	key := fmt.Sprintf("%p|%s|%v|%v", fn, strings.Join(ks, ","), freeShared, locked)
	if seen[key] || len(chain) > 12 {
		return
	}
	seen[key] = true
	// Lock calls in this function
	var locks []ssa.Instruction
	for _, b := range fn.Blocks {
		for _, in := range b.Instrs {
			if _, _, ok := isMutexCall(in, "Lock"); ok {
				if _, isDefer := in.(*ssa.Defer); !isDefer {
					locks = append(locks, in)
				}
			}
		}
	}
	underLock := func(in ssa.Instruction) bool {
		if locked {
			return true
		}
		for _, l := range locks {
			if core.InstrDominates(l, in) {
				return true
			}
		}
		return false
	}
	for _, b := range fn.Blocks {
		for _, in := range b.Instrs {
			switch t := in.(type) {
			case *ssa.Store:
				if _, isAlloc := t.Addr.(*ssa.Alloc); isAlloc {
					continue
				}
				if isSharedValue(fn, t.Addr, sharedParams, freeShared) && !underLock(in) {
					desc := describeAddr(t.Addr)
					*races = append(*races, fmt.Sprintf("%s|store:%s\tstore to %s in %s (%s)\t%s", core.FnName(fn), desc, desc, core.FnName(fn), prog.Loc(in.Pos()), strings.Join(chain, " -> ")))
				}
			case *ssa.MapUpdate:
				if isSharedValue(fn, t.Map, sharedParams, freeShared) && !underLock(in) {
					desc := describeAddr(t.Map)
					*races = append(*races, fmt.Sprintf("%s|mapupdate:%s\tmap update of %s in %s (%s)\t%s", core.FnName(fn), desc, desc, core.FnName(fn), prog.Loc(in.Pos()), strings.Join(chain, " -> ")))
				}
			case ssa.CallInstruction:
				cal := t.Common().StaticCallee()
				if cal == nil {
					continue
				}
				if _, isGo := in.(*ssa.Go); isGo {
					continue
				}
				sp := map[int]bool{}
				for i, a := range t.Common().Args {
					if pointerLike(a.Type()) && isSharedValue(fn, a, sharedParams, freeShared) {
						sp[i] = true
					}
				}
				fs := false
				if mc, ok := t.Common().Value.(*ssa.MakeClosure); ok {
					for _, bnd := range mc.Bindings {
						if isSharedValue(fn, bnd, sharedParams, freeShared) {
							fs = true
						}
					}
				}
				if len(sp) == 0 && !fs {
					continue
				}
				analyseShared(prog, cal, sp, fs, underLock(in), seen, append(append([]string{}, chain...), core.FnName(cal)), races)
			}
		}
	}
}

func describeAddr(v ssa.Value) string {
	switch t := v.(type) {
	case *ssa.FieldAddr:
		if f := core.FieldOf(t); f != nil {
			return core.NamedTypeName(t.X.Type()) + "." + f.Name()
		}
	case *ssa.IndexAddr:
		return describeAddr(t.X) + "[i]"
	case *ssa.UnOp:
		return describeAddr(t.X)
	case *ssa.Global:
		return "global " + t.Name()
	case *ssa.Parameter:
		return "*" + t.Name()
	case *ssa.FreeVar:
		return "captured " + t.Name()
	}
	return v.Name()
}

// checkLockRelease: every Lock/RLock of a sync mutex is released on every path to a return of its function — by a
// deferred Unlock registered before any return can be reached, or by an Unlock call on each path. A return that leaves
// the mutex locked blocks the next request (or the next diagnostic) forever.
func checkLockRelease(c *core.Ctx, rule string, funcs []*ssa.Function) {
	n := 0
	for _, fn := range funcs {
		for _, b := range fn.Blocks {
			for idx, in := range b.Instrs {
				arg, name, ok := isMutexCall(in, "Lock", "RLock")
				if !ok {
					continue
				}
				if _, isDefer := in.(*ssa.Defer); isDefer {
					continue
				}
				n++
				want := map[string]string{"Lock": "Unlock", "RLock": "RUnlock"}[name]
				sameMutex := func(v ssa.Value) bool {
					return accessPath(v) == accessPath(arg) && accessPath(arg) != ""
				}
				releases := func(i2 ssa.Instruction) bool {
					a2, _, ok := isMutexCall(i2, want)
					return ok && (sameMutex(a2) || a2 == arg)
				}
				// walk forward from the Lock; a path ends at a release (call or defer); reaching a Return first is a leak
				var leak ssa.Instruction
				seen := map[*ssa.BasicBlock]bool{}
				var walk func(blk *ssa.BasicBlock, from int)
				walk = func(blk *ssa.BasicBlock, from int) {
					for _, i2 := range blk.Instrs[from:] {
						if releases(i2) {
							return
						}
						if r, ok := i2.(*ssa.Return); ok {
							if leak == nil {
								leak = r
							}
							return
						}
						if p, ok := i2.(*ssa.Panic); ok {
							_ = p
							return
						}
					}
					for _, s := range blk.Succs {
						if !seen[s] {
							seen[s] = true
							walk(s, 0)
						}
					}
				}
				walk(b, idx+1)
				// idiom: the deferred release is registered just before the Lock
				if leak != nil {
					for _, b2 := range fn.Blocks {
						for _, i2 := range b2.Instrs {
							if _, isDefer := i2.(*ssa.Defer); isDefer && releases(i2) && core.InstrDominates(i2, in) {
								leak = nil
							}
						}
					}
				}
				key := fmt.Sprintf("%s|%s(%s)", core.FnName(fn), name, accessPath(arg))
				if leak == nil {
					c.Discharge(rule, key, in.Pos(), "released (deferred or direct "+want+") before every return")
				} else {
					c.Report(rule, key, leak.Pos(), fmt.Sprintf("%s can return at %s with the mutex taken at %s still locked (no %s on that path): the next caller blocks forever", core.FnName(fn), c.Prog.Loc(leak.Pos()), c.Prog.Loc(in.Pos()), want))
				}
			}
		}
	}
	if n == 0 {
		c.MissingAnchor(rule, "no sync.Mutex Lock in the analysed functions")
	}
}
