#!/bin/bash
# usage: ./run.sh <property id> [quick|thorough]   (cwd = /verif)
# Static analysis of /repo's current working tree; nothing of falco is executed.
cd "$(dirname "$0")" || exit 2
. ./env.sh
if [ ! -x bin/fv ] || [ -n "$(find tool -name '*.go' -newer bin/fv 2>/dev/null | head -1)" ]; then
  mkdir -p bin
  tmp=$(mktemp bin/fv.XXXXXX)
  (cd tool && go build -o "../$tmp" ./cmd/fv) && mv -f "$tmp" bin/fv || { rm -f "$tmp"; echo "cannot build the checker"; exit 2; }
fi
exec ./bin/fv check "$1" --tier "${2:-${VERIF_TIER:-quick}}"
