#!/usr/bin/env python3
"""Developer aid: re-runs every claimed check against every kept seeded change (seeded/<id>/patch.diff applied to /repo,
reverted afterwards) and refreshes detected_by / check_reports in its meta.json. No suite, no demonstration: those were
verified when the change was kept (seedeval.py). A patch that no longer applies to the current tree keeps its last
result and is marked applies_on_current_tree=false.
usage: reeval.py [ID-prefix ...]"""
import json, os, subprocess, sys, glob
from concurrent.futures import ThreadPoolExecutor

ENV = dict(os.environ, PATH="/opt/veriftools/go1.26.8/bin:" + os.environ["PATH"], GOTOOLCHAIN="local", GOFLAGS="-mod=mod", GOPROXY="off", GOSUMDB="off", GOWORK="off")

def sh(cmd, cwd="/repo"):
    p = subprocess.run(cmd, shell=True, cwd=cwd, env=ENV, stdout=subprocess.PIPE, stderr=subprocess.STDOUT, text=True)
    return p.returncode, p.stdout

def main():
    ids = [c["property_id"] for c in json.load(open("/verif/MANIFEST.json"))["checks"]]
    head = sh("git rev-parse --short HEAD")[1].strip()
    rc, out = sh("git status --porcelain")
    if out.strip():
        print("repo not clean"); sys.exit(2)
    want = sys.argv[1:]
    for d in sorted(glob.glob("/verif/seeded/C*-*")):
        sid = os.path.basename(d)
        if want and not any(sid.startswith(w) for w in want):
            continue
        mp = os.path.join(d, "meta.json")
        meta = json.load(open(mp))
        rc, out = sh("git apply --check %s/patch.diff" % d)
        if rc != 0:
            meta["applies_on_current_tree"] = False
            json.dump(meta, open(mp, "w"), indent=1)
            print(sid, "does not apply any more; last result kept:", meta.get("detected_by"))
            continue
        sh("git apply %s/patch.diff" % d)
        try:
            rc, out = sh("go build ./...")
            if rc != 0:
                print(sid, "does not build:", out[-300:]); continue
            def run(cid):
                rc, out = sh("./bin/fv check %s" % cid, cwd="/verif")
                lines = [l.strip()[:300] for l in out.splitlines() if l.startswith("  ") and "[" in l and "key:" not in l and "KNOWN" not in l]
                return cid, len([l for l in out.splitlines() if l.startswith("VIOLATION")]), lines[:3]
            with ThreadPoolExecutor(max_workers=8) as ex:
                res = list(ex.map(run, ids))
        finally:
            sh("git checkout -- . && git clean -fdq")
        meta["applies_on_current_tree"] = True
        meta["evaluated_at"] = head
        meta["detected_by"] = sorted(c for c, n, _ in res if n > 0)
        meta["check_reports"] = {c: l for c, n, l in res if n > 0}
        json.dump(meta, open(mp, "w"), indent=1)
        print(sid, meta["detected_by"])
        sys.stdout.flush()

if __name__ == "__main__":
    main()
