package checks

import (
	"fmt"
	"go/constant"
	"go/token"
	"go/types"
	"os"
	"strings"

	"fv/internal/core"

	"golang.org/x/tools/go/ssa"
)

// C08 — simulation is total and bounded.
func init() {
	register(&Check{ID: "C08", NeedSSA: true, Run: runC08})
}

const valuePkg = core.ModPath + "/interpreter/value"

func runC08(c *core.Ctx) {
	c.Explanation = "Structural necessary conditions of crash-free, bounded simulation, decided on SSA of interpreter/** and tester: (sim.recursion) every recursion of the simulator is structurally descending on the syntax tree or dominated by a depth/visited guard (E9) — restart re-entry, subroutine calls, include expansion; (sim.arith) every integer division/remainder has a divisor that is a non-zero constant or is dominated by the non-zero edge of a test of the same value (same canonical access path; a test of a float does not discharge a division by its integer conversion), and every shift has a count that is unsigned, constant, masked, or dominated by a non-negative test of the same value; (sim.unwrap) every value.Unwrap[T](v) whose result is dereferenced is dominated by a test of v's type tag for T (if/switch/early-return forms, on the same v) or by a nil test of the result; built-ins: the generated Validate call dominates and the unwrapped type agrees with the declared argument type table, and every args[k] lies inside the validated arity; (sim.optnil) grammar-optional syntax fields are nil-tested before being dereferenced (E2). (sim.lock) every sync.Mutex Lock in interpreter/tester is released on every path to a return (deferred or direct Unlock; a defer registered just before the Lock counts) — a leaked lock blocks the next request forever; (sim.memo) a self-recursive graph walk that guards against cycles only with an on-path set (marked before, unmarked after the recursive calls) fills a memo on every completed call, otherwise it is exponential in the number of paths. (sim.ctxnil) typestate of the per-request objects restart() resets to nil (backend request/response, object, response): forward must-dataflow of `established` (non-nil store, non-nil edge of a nil test) inside each function, entry sets as greatest fixpoint over the call sites in package interpreter, plus what a lifecycle scope establishes before it runs its subroutine for code that only runs under a Scope.Is guard; every dereference in the lifecycle functions and in the variable objects of each scope must be established. (sim.libpre) math/rand's Intn/Int63n get an argument that is a positive constant, len() of something tested non-empty, or dominated by a test of that very value implying n > 0; make([]T, n) with n from a VCL value is dominated by a non-negative test; crypto/rand.Int gets a limit tested positive; CryptBlocks input length is tested to be a multiple of the block size; an allocation size (make, strings/bytes.Repeat) computed from a VCL INTEGER is compared with a constant upper bound. (sim.lastidx) every x[len(x)-k] / x[:len(x)-v] is dominated by a length test, a push/pop pairing or a comparison of v with the length; (sim.indexneg) a strings/bytes Index* result used as a slice bound is tested against -1 first; (sim.vclbound) a VCL INTEGER used as a slice bound as is is tested non-negative and against the length; (sim.constidx) x[k] / x[a:b] with constant bounds outside args[k]: the length is known by construction (make, literal, digest, Split behind Contains, successful Peek(n), non-nil regexp match with the group count of the compiled pattern, callee returning a literal) or dominated by a length / HasPrefix test, seven named exceptions; (sim.backendnil) every dereference of the backend declaration of a value.Backend (nil for a director and for an unassigned BACKEND local) is dominated by a non-nil test of that declaration, in the function or at every call site of an unexported helper. (sim.errvalue) the value of a call whose error is discarded is not dereferenced without a nil test; sim.optnil follows nil into callees that type-switch on it."
	c.NotCovered = []string{"panics inside third-party libraries and the standard library (regexp, net, time)", "regex backtracking time; allocations whose size is not computed from a VCL INTEGER", "that saturation values are the right numbers", "slice bounds computed by arithmetic on run-time values other than the decided families (substr, parse_time_delta, url normalisation, ESI splitting, regexp submatch indices)"}
	prog := c.Prog
	u := newAstUniverse(prog)
	if u == nil {
		c.MissingAnchor("sim", "package ast")
		return
	}
	ifuncs := prog.ModuleFuncs("interpreter", "tester")
	for _, f := range ifuncs {
		c.Func(core.FnName(f))
	}

	// ---- recursion
	ra := newRecAnalysis(prog, "interpreter", "tester")
	checkRecursion(c, "sim.recursion", ra)
	c.Floor("sim.recursion", 3)

	// ---- optnil
	checkOptNil(c, "sim.optnil", u, ifuncs)
	checkDiscardedErrorValue(c, ifuncs)
	c.Floor("sim.optnil", 20)

	// ---- arithmetic
	checkArith(c, ifuncs)

	// ---- unwrap
	checkUnwrap(c, ifuncs)

	// ---- locks are released on every return (a leaked lock blocks the next request forever)
	checkLockRelease(c, "sim.lock", ifuncs)

	// ---- graph recursions guarded only by an on-path set are memoised
	checkMemoisedGraphWalk(c, "sim.memo", ifuncs)

	// ---- per-request objects are established before they are dereferenced
	checkCtxNil(c)

	// ---- library calls with a precondition on a run-time argument
	checkLibraryPreconditions(c, ifuncs)
	checkLibraryPreconditions2(c, ifuncs)
	checkBackendDeclNil(c, ifuncs)
	checkConstIndex(c, ifuncs)
	checkCallTreeKinds(c)
	// ---- x[len(x)-k]
	if os.Getenv("FV_LIST_SLICES") != "" {
		listRuntimeSlices(c, ifuncs)
	}
	checkSearchResultBounds(c, "sim.indexneg", ifuncs, "the simulator goes down with it")
	checkDirectVCLBounds(c, "sim.vclbound", ifuncs)
	checkLastIndexIn(c, "sim.lastidx", ifuncs, "a program or request that leaves it empty makes the simulator panic (index out of range)", 3)
}

// checkLibraryPreconditions (sim.libpre): math/rand's Intn/Int31n/Int63n panic unless n > 0, make([]T, n) panics for a
// negative n. When the argument is computed from VCL values it must be a positive constant, len() of something tested
// non-empty, or dominated by a test of the same value (same canonical access path) that implies the precondition.
// A difference or sum of two run-time integers (`to - from + 1`) can overflow and is only accepted behind a test of the
// result itself.
func checkLibraryPreconditions(c *core.Ctx, funcs []*ssa.Function) {
	n := 0
	positive := func(op token.Token, k int64, isFloat, edgeTrue, left bool) bool {
		if isFloat {
			return false
		}
		lo, _, excl, ok := intervalOf(op, k, edgeTrue, left)
		return ok && excl == nil && lo > 0
	}
	nonNeg := func(op token.Token, k int64, isFloat, edgeTrue, left bool) bool {
		if isFloat {
			return false
		}
		lo, _, excl, ok := intervalOf(op, k, edgeTrue, left)
		return ok && excl == nil && lo >= 0
	}
	isLen := func(v ssa.Value) bool {
		for {
			if cv, ok := v.(*ssa.Convert); ok {
				v = cv.X
				continue
			}
			break
		}
		call, ok := v.(*ssa.Call)
		if !ok {
			return false
		}
		bi, ok := call.Common().Value.(*ssa.Builtin)
		return ok && (bi.Name() == "len" || bi.Name() == "cap")
	}
	strip := func(v ssa.Value) ssa.Value {
		for {
			if cv, ok := v.(*ssa.Convert); ok {
				v = cv.X
				continue
			}
			return v
		}
	}
	for _, fn := range funcs {
		for _, b := range fn.Blocks {
			for _, in := range b.Instrs {
				var arg ssa.Value
				what := ""
				needPos := false
				switch t := in.(type) {
				case *ssa.Call:
					cal := t.Common().StaticCallee()
					if cal == nil || cal.Pkg == nil || (cal.Pkg.Pkg.Path() != "math/rand" && cal.Pkg.Pkg.Path() != "math/rand/v2") {
						continue
					}
					switch cal.Name() {
					case "Intn", "Int31n", "Int63n", "IntN", "Int32N", "Int64N", "N":
						arg = t.Common().Args[len(t.Common().Args)-1]
						what = "rand." + cal.Name()
						needPos = true
					default:
						continue
					}
				case *ssa.MakeSlice:
					arg = t.Len
					what = "make([]T, n)"
				default:
					continue
				}
				if k, isK := core.ConstIntValue(arg); isK {
					if (needPos && k > 0) || (!needPos && k >= 0) {
						continue
					}
				}
				v := strip(arg)
				if !needPos && (isLen(v) || isUnsignedType(v.Type())) {
					continue
				}
				// sums of lengths and non-negative constants
				if !needPos {
					if bo, ok := v.(*ssa.BinOp); ok && (bo.Op == token.ADD || bo.Op == token.MUL) {
						okSide := func(x ssa.Value) bool {
							x = strip(x)
							if k, isK := core.ConstIntValue(x); isK {
								return k >= 0
							}
							return isLen(x)
						}
						if okSide(bo.X) && okSide(bo.Y) {
							continue
						}
					}
				}
				n++
				key := fmt.Sprintf("%s|%s(%s)", core.FnName(fn), what, describeOperand(arg))
				ok := false
				how := ""
				switch {
				case needPos && (lenOfNonEmpty(fn, v, b) || (isLen(v) && lenTestedPositive(fn, v, b))):
					ok, how = true, "len() of something tested non-empty"
				case needPos && guardedCompare(fn, accessPath(v), b, positive):
					ok, how = true, "dominated by a test of the same value that implies n > 0"
				case !needPos && guardedCompare(fn, accessPath(v), b, nonNeg):
					ok, how = true, "dominated by a test of the same value that implies n >= 0"
				}
				if ok {
					c.Discharge("sim.libpre", key, in.Pos(), how)
				} else if needPos {
					c.Report("sim.libpre", key, in.Pos(), fmt.Sprintf("%s calls %s with %s, which is not dominated by a test of that very value implying n > 0 (a guard on the operands does not help: `to - from + 1` overflows for extreme operands): the call panics and takes the simulator down", core.FnName(fn), what, describeOperand(arg)))
				} else {
					c.Report("sim.libpre", key, in.Pos(), fmt.Sprintf("%s allocates a slice whose length (%s) comes from a VCL value and is not tested non-negative: a negative length panics (makeslice: len out of range)", core.FnName(fn), describeOperand(arg)))
				}
			}
		}
	}
	c.Extra("library_preconditions_checked", n)
}

// lenTestedPositive: v = len(x) and a dominating edge compares len(x) (same x) with a constant so that len > 0.
func lenTestedPositive(fn *ssa.Function, v ssa.Value, b *ssa.BasicBlock) bool {
	call, ok := v.(*ssa.Call)
	if !ok || len(call.Common().Args) != 1 {
		return false
	}
	return lenLowerBound(fn, call.Common().Args[0], b) >= 1
}

// checkMemoisedGraphWalk: a self-recursive function (usually a closure) that protects itself against cycles with an
// "on the current path" set — marked before the recursive calls, unmarked after them — visits a node once per path
// that leads to it: exponential in a call graph where subroutines are called from several places. It must also keep
// a memo: a second map filled with the result on every completed call and consulted before the walk.
func checkMemoisedGraphWalk(c *core.Ctx, rule string, funcs []*ssa.Function) {
	n := 0
	for _, fn := range funcs {
		if len(fn.Params) == 0 {
			continue
		}
		// self calls through the closure cell or directly
		var selfCalls []ssa.CallInstruction
		for _, b := range fn.Blocks {
			for _, in := range b.Instrs {
				call, ok := in.(ssa.CallInstruction)
				if !ok {
					continue
				}
				if call.Common().StaticCallee() == fn {
					selfCalls = append(selfCalls, call)
					continue
				}
				// dynamic call of a captured func variable that holds this very closure, possibly handed to a helper
				for _, v := range append([]ssa.Value{call.Common().Value}, call.Common().Args...) {
					if ld, ok := v.(*ssa.UnOp); ok && ld.Op == token.MUL {
						if fv, ok := ld.X.(*ssa.FreeVar); ok && closureCellHolds(fn, fv) {
							selfCalls = append(selfCalls, call)
						}
					}
				}
			}
		}
		if len(selfCalls) == 0 {
			continue
		}
		// maps keyed by a parameter: marks (true), unmarks (false / delete), result stores, lookups
		type mapUse struct {
			setTrue, unset, storeOther []ssa.Instruction
			lookups                    []*ssa.Lookup
		}
		uses := map[string]*mapUse{}
		get := func(m ssa.Value) *mapUse {
			k := mapRootName(m)
			if k == "" {
				return nil
			}
			if uses[k] == nil {
				uses[k] = &mapUse{}
			}
			return uses[k]
		}
		isParam := func(v ssa.Value) bool {
			for _, p := range fn.Params {
				if v == ssa.Value(p) {
					return true
				}
			}
			return false
		}
		for _, b := range fn.Blocks {
			for _, in := range b.Instrs {
				switch t := in.(type) {
				case *ssa.MapUpdate:
					if !isParam(t.Key) {
						continue
					}
					u := get(t.Map)
					if u == nil {
						continue
					}
					if k, ok := t.Value.(*ssa.Const); ok && k.Value != nil && k.Value.Kind() == constant.Bool {
						if constant.BoolVal(k.Value) {
							u.setTrue = append(u.setTrue, in)
						} else {
							u.unset = append(u.unset, in)
						}
					} else {
						u.storeOther = append(u.storeOther, in)
					}
				case *ssa.Call:
					if bi, ok := t.Common().Value.(*ssa.Builtin); ok && bi.Name() == "delete" && isParam(t.Common().Args[1]) {
						if u := get(t.Common().Args[0]); u != nil {
							u.unset = append(u.unset, in)
						}
					}
				case *ssa.Lookup:
					if isParam(t.Index) {
						if u := get(t.X); u != nil {
							u.lookups = append(u.lookups, t)
						}
					}
				}
			}
		}
		// an on-path set: marked before a self call and unmarked after it
		onPath := ""
		for name, u := range uses {
			if len(u.setTrue) == 0 || len(u.unset) == 0 {
				continue
			}
			for _, sc := range selfCalls {
				before, after := false, false
				for _, m := range u.setTrue {
					if core.Reaches(m.Block(), sc.Block()) {
						before = true
					}
				}
				for _, m := range u.unset {
					if core.Reaches(sc.Block(), m.Block()) {
						after = true
					}
				}
				if before && after {
					onPath = name
				}
			}
		}
		if onPath == "" {
			continue
		}
		n++
		key := core.FnName(fn) + "|on-path:" + onPath
		// the memo: another map, stored on every path after the unmark and consulted on entry
		cd := core.NewCtrlDeps(fn)
		memo := ""
		for name, u := range uses {
			if name == onPath || len(u.lookups) == 0 {
				continue
			}
			for _, st := range append(append([]ssa.Instruction{}, u.storeOther...), u.setTrue...) {
				for _, un := range uses[onPath].unset {
					// the store happens whenever the unmark happens: same control dependences (straight-line with it)
					if sameCtrl(cd, st.Block(), un.Block()) {
						memo = name
					}
				}
			}
		}
		if memo != "" {
			c.Discharge(rule, key, fn.Pos(), "results are memoised in `"+memo+"` on every completed call and looked up before the walk")
		} else {
			c.Report(rule, key, fn.Pos(), fmt.Sprintf("%s walks a graph recursively and only guards against cycles with the on-path set `%s` (unmarked after the calls); no memo is filled on every completed call, so a node is re-walked once per path leading to it — exponential time on programs whose subroutines are called from several places", core.FnName(fn), onPath))
		}
	}
	if n == 0 {
		c.Info("%s: no recursion guarded by an on-path set found", rule)
	}
}

// sameCtrl: blocks a and b are executed under exactly the same branch decisions.
func sameCtrl(cd *core.CtrlDeps, a, b *ssa.BasicBlock) bool {
	if a == b {
		return true
	}
	ea, eb := cd.Transitive(a), cd.Transitive(b)
	if len(ea) != len(eb) {
		return false
	}
	set := map[core.CtrlEdge]bool{}
	for _, e := range ea {
		set[e] = true
	}
	for _, e := range eb {
		if !set[e] {
			return false
		}
	}
	return true
}

// closureCellHolds: the free variable fv of closure fn is a cell of func type into which the parent stores fn itself.
func closureCellHolds(fn *ssa.Function, fv *ssa.FreeVar) bool {
	parent := fn.Parent()
	if parent == nil {
		return false
	}
	idx := -1
	for i, v := range fn.FreeVars {
		if v == fv {
			idx = i
		}
	}
	if idx < 0 {
		return false
	}
	for _, b := range parent.Blocks {
		for _, in := range b.Instrs {
			mc, ok := in.(*ssa.MakeClosure)
			if !ok || mc.Fn != ssa.Value(fn) || idx >= len(mc.Bindings) {
				continue
			}
			cell := mc.Bindings[idx]
			if cell.Referrers() == nil {
				continue
			}
			for _, r := range *cell.Referrers() {
				if st, ok := r.(*ssa.Store); ok && st.Addr == cell {
					if m2, ok := st.Val.(*ssa.MakeClosure); ok && m2.Fn == ssa.Value(fn) {
						return true
					}
				}
			}
		}
	}
	return false
}

// mapRootName: a stable name for the map a value denotes (captured variable, field or local).
func mapRootName(v ssa.Value) string {
	switch t := v.(type) {
	case *ssa.UnOp:
		if t.Op == token.MUL {
			return mapRootName(t.X)
		}
	case *ssa.FreeVar:
		return t.Name()
	case *ssa.Alloc:
		return t.Comment
	case *ssa.MakeMap:
		return t.Name()
	case *ssa.FieldAddr:
		if f := core.FieldOf(t); f != nil {
			return "." + f.Name()
		}
	case *ssa.Parameter:
		return t.Name()
	}
	return ""
}

// accessPath: canonical rendering of a value as base + field chain + conversions ("" if not expressible).
func accessPath(v ssa.Value) string {
	switch t := v.(type) {
	case *ssa.Parameter:
		return "param:" + t.Name()
	case *ssa.UnOp:
		if t.Op == token.MUL {
			if p := accessPath(t.X); p != "" {
				return "*" + p
			}
		}
		return ""
	case *ssa.FieldAddr:
		if p := accessPath(t.X); p != "" {
			if f := core.FieldOf(t); f != nil {
				return p + "." + f.Name()
			}
		}
		return ""
	case *ssa.Field:
		if p := accessPath(t.X); p != "" {
			if f := core.FieldOf(t); f != nil {
				return p + "." + f.Name()
			}
		}
		return ""
	case *ssa.IndexAddr:
		if k, ok := core.ConstIntValue(t.Index); ok {
			if p := accessPath(t.X); p != "" {
				return fmt.Sprintf("%s[%d]", p, k)
			}
		}
		if p := accessPath(t.X); p != "" {
			return fmt.Sprintf("%s[%s@%p]", p, t.Index.Name(), t.Index) // same index value => same element
		}
		return fmt.Sprintf("%s@%p", v.Name(), v)
	case *ssa.Convert:
		if p := accessPath(t.X); p != "" {
			return t.Type().String() + "(" + p + ")"
		}
		return ""
	case *ssa.ChangeType:
		return accessPath(t.X)
	case *ssa.Call:
		// value.Unwrap[T](x) and pure accessors: identified by callee + argument paths
		if cal := t.Common().StaticCallee(); cal != nil {
			var as []string
			for _, a := range t.Common().Args {
				p := accessPath(a)
				if p == "" {
					return fmt.Sprintf("call@%p", t) // unique: only equal to itself
				}
				as = append(as, p)
			}
			name := cal.Name()
			if o := cal.Origin(); o != nil {
				name = o.Name() + "[" + cal.Signature.Results().String() + "]"
			}
			if name == "Unwrap" || strings.HasPrefix(name, "Unwrap[") {
				return name + "(" + strings.Join(as, ",") + ")"
			}
		}
		return fmt.Sprintf("call@%p", t)
	case *ssa.TypeAssert:
		if p := accessPath(t.X); p != "" {
			return p + ".(" + t.AssertedType.String() + ")"
		}
	case *ssa.Extract:
		if p := accessPath(t.Tuple); p != "" {
			return fmt.Sprintf("%s#%d", p, t.Index)
		}
	case *ssa.Phi, *ssa.Alloc:
		return fmt.Sprintf("%s@%p", v.Name(), v)
	case *ssa.Const:
		return "const:" + t.String()
	}
	return fmt.Sprintf("%s@%p", v.Name(), v)
}

// guardedBy: is block b dominated by an edge of a comparison `path ⋈ const` satisfying accept(op, const, edgeTrue)?
func guardedCompare(fn *ssa.Function, path string, b *ssa.BasicBlock, accept func(op token.Token, k int64, isFloat bool, edgeTrue bool, pathOnLeft bool) bool) bool {
	if path == "" {
		return false
	}
	for _, blk := range fn.Blocks {
		iff, ok := blk.Instrs[len(blk.Instrs)-1].(*ssa.If)
		if !ok {
			continue
		}
		bo, ok := iff.Cond.(*ssa.BinOp)
		if !ok {
			continue
		}
		for _, side := range []bool{true, false} {
			x, y := bo.X, bo.Y
			if !side {
				x, y = y, x
			}
			if accessPath(x) != path {
				continue
			}
			kc, ok := y.(*ssa.Const)
			if !ok || kc.Value == nil {
				continue
			}
			var k int64
			isFloat := false
			if v, ok := core.ConstIntValue(y); ok {
				k = v
			} else {
				isFloat = true
			}
			for edge := 0; edge < 2; edge++ {
				if core.EdgeDominates(blk, edge, b) && accept(bo.Op, k, isFloat, edge == 0, side) {
					return true
				}
			}
		}
	}
	return false
}

func isIntegerType(t types.Type) bool {
	b, ok := t.Underlying().(*types.Basic)
	return ok && b.Info()&types.IsInteger != 0
}

func isUnsignedType(t types.Type) bool {
	b, ok := t.Underlying().(*types.Basic)
	return ok && b.Info()&types.IsUnsigned != 0
}

func checkArith(c *core.Ctx, funcs []*ssa.Function) {
	for _, fn := range funcs {
		for _, b := range fn.Blocks {
			for _, in := range b.Instrs {
				bo, ok := in.(*ssa.BinOp)
				if !ok {
					continue
				}
				switch bo.Op {
				case token.QUO, token.REM:
					if !isIntegerType(bo.X.Type()) {
						continue
					}
					key := fmt.Sprintf("%s|%s %s", core.FnName(fn), bo.Op, describeOperand(bo.Y))
					if k, isK := core.ConstIntValue(bo.Y); isK {
						if k != 0 {
							c.Discharge("sim.arith", key, in.Pos(), "non-zero constant divisor")
						} else {
							c.Report("sim.arith", key, in.Pos(), "integer division by the constant 0")
						}
						continue
					}
					path := accessPath(bo.Y)
					nonZero := func(op token.Token, k int64, isFloat, edgeTrue, left bool) bool {
						if isFloat {
							return false
						}
						lo, hi, excl, ok := intervalOf(op, k, edgeTrue, left)
						if !ok {
							return false
						}
						if excl != nil {
							return *excl == 0
						}
						return lo > 0 || hi < 0
					}
					if guardedCompare(fn, path, b, nonZero) || nonZeroByConstruction(bo.Y) || lenOfNonEmpty(fn, bo.Y, b) {
						c.Discharge("sim.arith", key, in.Pos(), "divisor tested non-zero on the same access path")
					} else {
						c.Report("sim.arith", key, in.Pos(), fmt.Sprintf("integer %s in %s whose divisor (%s) is not dominated by a non-zero test of that same value: a zero divisor (e.g. RTIME /= 0s, INTEGER /= 0.5) panics the process", bo.Op, core.FnName(fn), describeOperand(bo.Y)))
					}
				case token.SHL, token.SHR:
					if !isIntegerType(bo.X.Type()) {
						continue
					}
					key := fmt.Sprintf("%s|%s by %s", core.FnName(fn), bo.Op, describeOperand(bo.Y))
					if _, isK := core.ConstIntValue(bo.Y); isK || isUnsignedType(bo.Y.Type()) || isMasked(bo.Y) {
						c.Discharge("sim.arith", key, in.Pos(), "constant / unsigned / masked shift count")
						continue
					}
					path := accessPath(bo.Y)
					nonNeg := func(op token.Token, k int64, isFloat, edgeTrue, left bool) bool {
						if isFloat {
							return false
						}
						lo, _, excl, ok := intervalOf(op, k, edgeTrue, left)
						if !ok || excl != nil {
							return false
						}
						return lo >= 0
					}
					if guardedCompare(fn, path, b, nonNeg) {
						c.Discharge("sim.arith", key, in.Pos(), "shift count tested non-negative on the same access path")
					} else {
						c.Report("sim.arith", key, in.Pos(), fmt.Sprintf("shift in %s by a signed count (%s) that is not dominated by a non-negative test of that value: a negative count (`<<= -1`, `rol= -1`) panics the process", core.FnName(fn), describeOperand(bo.Y)))
					}
				}
			}
		}
	}
	c.Floor("sim.arith", 20)
}

func describeOperand(v ssa.Value) string {
	p := accessPath(v)
	if i := strings.Index(p, "@0x"); i >= 0 {
		return describeValue(v)
	}
	return p
}

func isMasked(v ssa.Value) bool {
	switch t := v.(type) {
	case *ssa.BinOp:
		if t.Op == token.AND || t.Op == token.REM {
			if k, ok := core.ConstIntValue(t.Y); ok && k > 0 {
				return true
			}
		}
	case *ssa.Convert:
		if isUnsignedType(t.Type()) {
			return true
		}
		return isMasked(t.X)
	}
	return false
}

const (
	minInt64 = -1 << 63
	maxInt64 = 1<<63 - 1
)

// intervalOf: the set of x for which (x op k) [or (k op x) when !left] is edgeTrue: [lo,hi], or "everything but excl".
func intervalOf(op token.Token, k int64, edgeTrue, left bool) (lo, hi int64, excl *int64, ok bool) {
	if !left {
		// k op x  ==  x op' k
		switch op {
		case token.LSS:
			op = token.GTR
		case token.LEQ:
			op = token.GEQ
		case token.GTR:
			op = token.LSS
		case token.GEQ:
			op = token.LEQ
		}
	}
	if !edgeTrue {
		switch op {
		case token.LSS:
			op = token.GEQ
		case token.LEQ:
			op = token.GTR
		case token.GTR:
			op = token.LEQ
		case token.GEQ:
			op = token.LSS
		case token.EQL:
			op = token.NEQ
		case token.NEQ:
			op = token.EQL
		default:
			return 0, 0, nil, false
		}
	}
	switch op {
	case token.LSS:
		if k == minInt64 {
			return 0, 0, nil, false
		}
		return minInt64, k - 1, nil, true
	case token.LEQ:
		return minInt64, k, nil, true
	case token.GTR:
		if k == maxInt64 {
			return 0, 0, nil, false
		}
		return k + 1, maxInt64, nil, true
	case token.GEQ:
		return k, maxInt64, nil, true
	case token.EQL:
		return k, k, nil, true
	case token.NEQ:
		kk := k
		return 0, 0, &kk, true
	}
	return 0, 0, nil, false
}

// lenOfNonEmpty: v is len(conv(s)) / len(s) where the string s is tested against "" on an edge dominating b.
func lenOfNonEmpty(fn *ssa.Function, v ssa.Value, b *ssa.BasicBlock) bool {
	if cv, ok := v.(*ssa.Convert); ok {
		v = cv.X
	}
	call, ok := v.(*ssa.Call)
	if !ok {
		return false
	}
	if bi, ok := call.Common().Value.(*ssa.Builtin); !ok || bi.Name() != "len" {
		return false
	}
	x := call.Common().Args[0]
	if cv, ok := x.(*ssa.Convert); ok {
		x = cv.X
	}
	path := accessPath(x)
	for _, blk := range fn.Blocks {
		iff, ok := blk.Instrs[len(blk.Instrs)-1].(*ssa.If)
		if !ok {
			continue
		}
		bo, ok := iff.Cond.(*ssa.BinOp)
		if !ok || (bo.Op != token.EQL && bo.Op != token.NEQ) {
			continue
		}
		k, ok := bo.Y.(*ssa.Const)
		if !ok || k.Value == nil || k.Value.ExactString() != `""` || accessPath(bo.X) != path {
			continue
		}
		edge := 1
		if bo.Op == token.NEQ {
			edge = 0
		}
		if core.EdgeDominates(blk, edge, b) {
			return true
		}
	}
	return false
}

// nonZeroByConstruction: len(x)+k with k>0, a phi of non-zero constants, an integer conversion of math.Pow(c>=1, …),
// a product of such values with non-zero constants (overflow to exactly zero is not considered).
func nonZeroByConstruction(v ssa.Value) bool {
	switch t := v.(type) {
	case *ssa.Const:
		k, ok := core.ConstIntValue(t)
		return ok && k != 0
	case *ssa.Phi:
		for _, e := range t.Edges {
			if !nonZeroByConstruction(e) {
				return false
			}
		}
		return len(t.Edges) > 0
	case *ssa.Call:
		if cal := t.Common().StaticCallee(); cal != nil && cal.Pkg != nil && cal.Pkg.Pkg.Path() == "math" && cal.Name() == "Pow" {
			if k, ok := t.Common().Args[0].(*ssa.Const); ok && k.Value != nil {
				if f, _ := constant.Float64Val(constant.ToFloat(k.Value)); f >= 1 {
					return true
				}
			}
		}
		return false
	case *ssa.BinOp:
		if t.Op == token.MUL {
			return nonZeroByConstruction(t.X) && nonZeroByConstruction(t.Y)
		}
		if t.Op == token.ADD {
			if k, ok := core.ConstIntValue(t.Y); ok && k > 0 {
				if call, ok := t.X.(*ssa.Call); ok {
					if bi, ok := call.Common().Value.(*ssa.Builtin); ok && bi.Name() == "len" {
						return true
					}
				}
			}
		}
	case *ssa.Convert:
		return nonZeroByConstruction(t.X)
	}
	return false
}

// checkUnwrap: value.Unwrap[T](v) results that are dereferenced need a tag guard on v or a nil test of the result.
func checkUnwrap(c *core.Ctx, funcs []*ssa.Function) {
	prog := c.Prog
	typeConst := map[string]string{} // "*value.String" element name -> type tag constant name
	if vp := prog.Pkg("interpreter/value"); vp != nil {
		for _, n := range vp.Types.Scope().Names() {
			if strings.HasSuffix(n, "Type") {
				if _, ok := vp.Types.Scope().Lookup(n).(*types.Const); ok {
					typeConst[strings.TrimSuffix(n, "Type")] = n
				}
			}
		}
	}
	builtinArgs := newBuiltinArgTable(prog)
	allFuncs := prog.ModuleFuncs()
	nSites := 0
	for _, fn := range funcs {
		for _, b := range fn.Blocks {
			for _, in := range b.Instrs {
				call, ok := in.(*ssa.Call)
				if !ok {
					continue
				}
				cal := call.Common().StaticCallee()
				if cal == nil || cal.Origin() == nil || cal.Origin().Name() != "Unwrap" || cal.Origin().Pkg == nil || cal.Origin().Pkg.Pkg.Path() != valuePkg {
					continue
				}
				nSites++
				want := core.NamedTypeName(call.Type()) // String, Integer …
				v := call.Common().Args[0]
				uses := derefUses(nil, call)
				key := fmt.Sprintf("%s|Unwrap[%s](%s)", core.FnName(fn), want, describeOperand(v))
				if len(uses) == 0 {
					c.Instance("sim.unwrap")
					continue
				}
				bad := false
				for _, use := range uses {
					if core.DominatedByNil(call, use.Block(), false) {
						continue
					}
					if tagGuarded(fn, v, want, use.Block()) || tagGuarded(fn, v, want, call.Block()) {
						continue
					}
					if builtinArgs.guards(fn, call, v, want) || builtinArgs.explicitCheck(fn, call, v, want) {
						continue
					}
					if returnsKindGuard(v, want, use.Block()) {
						continue
					}
					if builtinArgs.arityDead(fn, call.Block()) || builtinArgs.forwarded(allFuncs, fn, v, want) {
						continue
					}
					if paramGuardedByCallers(prog, allFuncs, builtinArgs, fn, v, want) {
						continue
					}
					bad = true
					c.Report("sim.unwrap", key, use.Pos(), fmt.Sprintf("value.Unwrap[*value.%s] of %s is dereferenced without a dominating test that the value has type %s (and without a nil test of the result): a value of another type makes Unwrap return nil and the process panics", want, describeOperand(v), strings.ToUpper(want)))
					break
				}
				if !bad {
					c.Discharge("sim.unwrap", key, in.Pos(), "type tag tested on the same value / validated built-in argument / result nil-tested")
				}
			}
		}
	}
	builtinArgs.checkArgIndices(c)
	c.Extra("unwrap_sites", nSites)
	c.Floor("sim.unwrap", 300)
}

// tagGuarded: block b is only reachable when v.Type() == <want>Type (or v was type-switched / asserted to *value.<want>).
func tagGuarded(fn *ssa.Function, v ssa.Value, want string, b *ssa.BasicBlock) bool {
	path := accessPath(v)
	for _, blk := range fn.Blocks {
		iff, ok := blk.Instrs[len(blk.Instrs)-1].(*ssa.If)
		if !ok {
			continue
		}
		if guardsTag(iff.Cond, path, want, true) && core.EdgeDominates(blk, 0, b) {
			return true
		}
		if guardsTag(iff.Cond, path, want, false) && core.EdgeDominates(blk, 1, b) {
			return true
		}
	}
	return false
}

// guardsTag: does cond being true (polarity) / false (!polarity) imply path.Type() == want?
func guardsTag(cond ssa.Value, path, want string, polarity bool) bool {
	switch t := cond.(type) {
	case *ssa.BinOp:
		if t.Op != token.EQL && t.Op != token.NEQ {
			return false
		}
		isType := func(x ssa.Value) bool {
			call, ok := x.(*ssa.Call)
			if !ok || !call.Common().IsInvoke() || call.Common().Method.Name() != "Type" {
				return false
			}
			return accessPath(call.Common().Value) == path
		}
		isTag := func(x ssa.Value) bool {
			k, ok := x.(*ssa.Const)
			if !ok || k.Value == nil {
				return false
			}
			return strings.EqualFold(strings.Trim(k.Value.ExactString(), `"`), want) || tagName(k) == want
		}
		match := (isType(t.X) && isTag(t.Y)) || (isType(t.Y) && isTag(t.X))
		if !match {
			return false
		}
		return (t.Op == token.EQL) == polarity
	case *ssa.UnOp:
		if t.Op == token.NOT {
			return guardsTag(t.X, path, want, !polarity)
		}
	case *ssa.Extract:
		// `_, ok := v.(*value.T)`
		if ta, ok := t.Tuple.(*ssa.TypeAssert); ok && t.Index == 1 && polarity {
			return accessPath(ta.X) == path && core.NamedTypeName(ta.AssertedType) == want
		}
	}
	return false
}

// tagName maps the value.Type constant to the value kind name ("STRING" -> "String").
func tagName(k *ssa.Const) string {
	s := strings.Trim(k.Value.ExactString(), `"`)
	switch s {
	case "STRING":
		return "String"
	case "INTEGER":
		return "Integer"
	case "FLOAT":
		return "Float"
	case "BOOL":
		return "Boolean"
	case "IP":
		return "IP"
	case "RTIME":
		return "RTime"
	case "TIME":
		return "Time"
	case "BACKEND":
		return "Backend"
	case "ACL":
		return "Acl"
	case "ID", "IDENT":
		return "Ident"
	case "REGEX":
		return "Regex"
	}
	return ""
}

var retKindMemo = map[*ssa.Function]string{}

// returnsKind: the value kind ("Boolean", …) of the first result on every return whose error may be nil; "" if mixed.
func returnsKind(fn *ssa.Function, depth int) string {
	if k, ok := retKindMemo[fn]; ok {
		return k
	}
	retKindMemo[fn] = ""
	if fn.Blocks == nil || depth > 3 {
		return ""
	}
	kind := ""
	for _, rs := range core.ReturnSites(fn) {
		if len(rs.Results) < 1 {
			return ""
		}
		errNonNil := false
		for _, r := range rs.Results[1:] {
			if core.IsErrorType(r.Type()) && errNonNilAt(r, rs.Ret.Block()) {
				errNonNil = true
			}
		}
		if errNonNil {
			continue
		}
		k := kindOfValue(rs.Results[0], depth)
		if k == "" || (kind != "" && kind != k) {
			return ""
		}
		kind = k
	}
	retKindMemo[fn] = kind
	return kind
}

func kindOfValue(v ssa.Value, depth int) string {
	switch t := v.(type) {
	case *ssa.MakeInterface:
		if core.NamedTypePkgName(t.X.Type()) != "" && strings.HasPrefix(core.NamedTypePkgName(t.X.Type()), valuePkg+".") {
			if _, isPtr := t.X.Type().Underlying().(*types.Pointer); isPtr {
				return core.NamedTypeName(t.X.Type())
			}
		}
	case *ssa.Extract:
		if call, ok := t.Tuple.(*ssa.Call); ok && t.Index == 0 {
			if cal := call.Common().StaticCallee(); cal != nil {
				return returnsKind(cal, depth+1)
			}
		}
	case *ssa.Call:
		if cal := t.Common().StaticCallee(); cal != nil {
			return returnsKind(cal, depth+1)
		}
	case *ssa.Phi:
		kind := ""
		for _, e := range t.Edges {
			k := kindOfValue(e, depth)
			if k == "" || (kind != "" && k != kind) {
				return ""
			}
			kind = k
		}
		return kind
	}
	return ""
}

// returnsKindGuard: v is the first result of calls that always yield *value.<want> when their error is nil, and the use
// is on the nil-error side of each of them.
func returnsKindGuard(v ssa.Value, want string, b *ssa.BasicBlock) bool {
	var check func(x ssa.Value) bool
	check = func(x ssa.Value) bool {
		switch t := x.(type) {
		case *ssa.Extract:
			call, ok := t.Tuple.(*ssa.Call)
			if !ok || t.Index != 0 || kindOfValue(t, 0) != want {
				return false
			}
			for _, e := range core.ErrorResults(call) {
				if core.DominatedByNil(e, b, true) {
					continue
				}
				// the error is merged with sibling errors in a phi that is tested
				viaPhi := false
				if e.Referrers() != nil {
					for _, r := range *e.Referrers() {
						if ph, ok := r.(*ssa.Phi); ok && core.DominatedByNil(ph, b, true) {
							viaPhi = true
						}
					}
				}
				if !viaPhi {
					return false
				}
			}
			return true
		case *ssa.Phi:
			for _, e := range t.Edges {
				if !check(e) {
					return false
				}
			}
			return len(t.Edges) > 0
		case *ssa.MakeInterface:
			return kindOfValue(t, 0) == want
		case *ssa.Call:
			// a single-result call (no error) that always yields *value.<want>, e.g. (*value.Integer).Copy
			if t.Common().Signature().Results().Len() == 1 {
				return kindOfValue(t, 0) == want
			}
		}
		return false
	}
	return check(v)
}

// paramGuardedByCallers: v is a parameter of a helper; every static caller passes a value that is guarded for <want>
// at its call site (validated built-in argument, explicit tag test, or return-kind).
func paramGuardedByCallers(prog *core.Program, all []*ssa.Function, t *builtinArgTable, fn *ssa.Function, v ssa.Value, want string) bool {
	p, ok := v.(*ssa.Parameter)
	if !ok {
		return false
	}
	idx := -1
	for i, q := range fn.Params {
		if q == p {
			idx = i
		}
	}
	callers := core.CallersOf(fn, all)
	if idx < 0 || len(callers) == 0 {
		return false
	}
	for _, cs := range callers {
		call, ok := cs.(*ssa.Call)
		if !ok || idx >= len(cs.Common().Args) {
			return false
		}
		a := cs.Common().Args[idx]
		cf := cs.Parent()
		if tagGuarded(cf, a, want, call.Block()) || t.guards(cf, call, a, want) || t.explicitCheck(cf, call, a, want) || returnsKindGuard(a, want, call.Block()) {
			continue
		}
		return false
	}
	return true
}
